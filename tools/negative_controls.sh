#!/bin/bash
# Property-PRESERVING edits of /repo: every check must stay green (no false alarm).
set -u
B=${1:-15}
cd /verif
if [ -n "$(git -C /repo status --porcelain)" ]; then echo "/repo is not clean"; exit 2; fi
export VERIF_SCRATCH=/verif/target/scratch
mkdir -p $VERIF_SCRATCH
bad=0
for d in sensitivity/negative_controls/*.diff; do
  n=$(basename $d .diff); prop=$(echo $n | cut -d_ -f1 | tr a-z A-Z)
  git -C /repo apply /verif/$d || { echo "$n: patch does not apply"; bad=$((bad+1)); continue; }
  out=$(./check $prop --budget-s $B 2>/dev/null); rc=$?
  git -C /repo checkout -- .
  if [ $rc -eq 0 ]; then echo "QUIET   $n  $(echo "$out" | tail -1 | cut -c1-110)"; else bad=$((bad+1)); echo "ALARM   $n rc=$rc $(echo "$out" | grep -m1 '^  class=' | cut -c1-160)"; fi
done
cargo build --release --offline >/dev/null 2>&1
echo "negative controls: false alarms=$bad"
