#!/usr/bin/env python3
"""Runs the registered checks against every seeded change under /verif/seeded/<id>/: applies
patch.diff to /repo's working tree, runs the property's check (scratch output; committed evidence
untouched), reverts, and records the outcome in seeded/<id>/meta.json ("detection").
usage: run_seeded.py [budget_s] [id-filter]"""
import json, os, subprocess, sys, glob, time
B = sys.argv[1] if len(sys.argv) > 1 else '15'
F = sys.argv[2] if len(sys.argv) > 2 else ''
if subprocess.run(['git', '-C', '/repo', 'status', '--porcelain'], capture_output=True, text=True).stdout.strip():
    print('/repo is not clean'); sys.exit(2)
env = dict(os.environ, VERIF_SCRATCH='/verif/target/scratch')
os.makedirs('/verif/target/scratch', exist_ok=True)
rows = []
for d in sorted(glob.glob('/verif/seeded/*/')):
    mid = os.path.basename(d.rstrip('/'))
    if F and F not in mid:
        continue
    meta = json.load(open(d + 'meta.json'))
    prop = meta['breaks_property']
    if meta.get('obsolete_since'):
        rows.append((mid, prop, 'OBSOLETE', meta['obsolete_since'])); print(rows[-1], flush=True); continue
    ap = subprocess.run(['git', '-C', '/repo', 'apply', d + 'patch.diff'], capture_output=True, text=True)
    if ap.returncode != 0:
        rows.append((mid, prop, 'PATCH-DOES-NOT-APPLY', '')); print(rows[-1], flush=True); continue
    t0 = time.time()
    r = subprocess.run(['./check', prop, '--budget-s', B], cwd='/verif', env=env, capture_output=True, text=True)
    wall = time.time() - t0
    subprocess.run(['git', '-C', '/repo', 'reset', '-q', '--hard', 'HEAD'])
    subprocess.run(['git', '-C', '/repo', 'clean', '-fdq'])
    out = r.stdout
    viol = [l for l in out.splitlines() if l.startswith('VIOLATION')]
    classes = sorted(set(l.strip().split(' detail=')[0].replace('class=', '') for l in out.splitlines() if l.startswith('  class=')))
    first_detail = next((l.strip()[:300] for l in out.splitlines() if l.startswith('  class=')), '')
    caught = r.returncode == 1 and len(viol) > 0
    meta['detection'] = {
        'check': f'./check {prop} --budget-s {B} (quick machinery, short budget; scratch output)',
        'caught': caught, 'exit_code': r.returncode, 'violation_lines': len(viol),
        'classes': classes, 'example': first_detail, 'wall_s': round(wall, 1),
        'verif_head': subprocess.run(['git', '-C', '/verif', 'rev-parse', '--short', 'HEAD'], capture_output=True, text=True).stdout.strip(),
    }
    json.dump(meta, open(d + 'meta.json', 'w'), indent=1)
    rows.append((mid, prop, 'CAUGHT' if caught else f'MISSED rc={r.returncode}', '; '.join(classes)[:140]))
    print(rows[-1], flush=True)
subprocess.run('cd /verif && cargo build --release --offline >/dev/null 2>&1', shell=True)
print('caught', sum(1 for r in rows if r[2] == 'CAUGHT'), 'of', sum(1 for r in rows if r[2] != 'OBSOLETE'), '(obsolete:', sum(1 for r in rows if r[2] == 'OBSOLETE'), ')')
