#!/bin/bash
# Proves sensitivity: applies each deliberate break of /verif/sensitivity to /repo's working tree,
# runs the corresponding check with a short budget (scratch output, committed evidence untouched),
# reverts, and reports whether the break was caught. /repo must be clean. Usage: sensitivity.sh [budget_s] [name-filter]
set -u
B=${1:-12}
F=${2:-}
cd /verif
if [ -n "$(git -C /repo status --porcelain)" ]; then echo "/repo is not clean"; exit 2; fi
export VERIF_SCRATCH=/verif/target/scratch
rm -rf $VERIF_SCRATCH; mkdir -p $VERIF_SCRATCH
caught=0; missed=0
for d in sensitivity/*.diff; do
  n=$(basename $d .diff)
  if [ -n "$F" ] && [[ "$n" != *$F* ]]; then continue; fi
  prop=$(echo $n | cut -d_ -f1 | tr a-z A-Z)
  git -C /repo apply /verif/$d || { echo "$n: patch does not apply"; continue; }
  out=$(./check $prop --budget-s $B 2>&1); rc=$?
  git -C /repo checkout -- .
  v=$(echo "$out" | grep -c "^VIOLATION")
  cls=$(echo "$out" | grep "^  class=" | head -1 | cut -c1-150)
  if [ $rc -eq 1 ] && [ $v -gt 0 ]; then caught=$((caught+1)); echo "CAUGHT  $n ($v) $cls"; else missed=$((missed+1)); echo "MISSED  $n rc=$rc $(echo "$out" | tail -1 | cut -c1-160)"; fi
done
echo "sensitivity: caught=$caught missed=$missed"
# rebuild against the clean tree
cargo build --release --offline >/dev/null 2>&1
