#!/bin/bash
# try_patch.sh <patch.diff> <C12|C15|C17> [budget_s] — applies a patch to /repo's working tree,
# runs the check with scratch output, reverts. /repo must be clean.
set -u
P=$1; PROP=$2; B=${3:-15}
cd /verif
if [ -n "$(git -C /repo status --porcelain)" ]; then echo "/repo is not clean"; exit 2; fi
export VERIF_SCRATCH=/verif/target/scratch
mkdir -p $VERIF_SCRATCH
git -C /repo apply "$P" 2>/dev/null || git -C /repo apply --3way "$P" || { echo "PATCH DOES NOT APPLY"; git -C /repo reset -q --hard; exit 3; }
out=$(./check $PROP --budget-s $B 2>&1); rc=$?
git -C /repo reset -q --hard HEAD; git -C /repo clean -fdq
echo "$out" | grep -E "^VIOLATION|^  class=|^HARNESS|quick:|^KNOWN" | cut -c1-260
echo "rc=$rc"
