#!/usr/bin/env python3
"""Confirms a seeded mutation independently in a scratch worktree of /repo (outside /repo and
/verif) and records it under /verif/seeded/<id>/.

  confirm_mutation.py <id> <property> <patch.diff> <demo.rs> <crate-dir> <package> [--args "<test args>"]
                      [--notes notes.md] [--extra-demo file:crate-dir:package]

Steps: (1) demo on the unchanged tree must pass; (2) with the patch applied the demo must fail
(non-zero exit or time-out); (3) with the patch applied the repository's own suite must pass
(only pest_vm surround::quote may fail, as on the unchanged tree). The worktree and its build
output are removed afterwards.
"""
import argparse, json, os, shutil, subprocess, sys, time

ap = argparse.ArgumentParser()
ap.add_argument('id'); ap.add_argument('prop'); ap.add_argument('patch'); ap.add_argument('demo')
ap.add_argument('crate_dir'); ap.add_argument('package')
ap.add_argument('--args', default='')
ap.add_argument('--notes', default=None)
ap.add_argument('--needs', default='')
ap.add_argument('--timeout', type=int, default=240)
a = ap.parse_args()

WT = f'/tmp/confirm/{a.id}'
TARGET = '/tmp/confirm/target'
env = dict(os.environ, CARGO_NET_OFFLINE='true', CARGO_TARGET_DIR=TARGET)
os.makedirs('/tmp/confirm', exist_ok=True)
subprocess.run(['git', '-C', '/repo', 'worktree', 'remove', '--force', WT], capture_output=True)
r = subprocess.run(['git', '-C', '/repo', 'worktree', 'add', '-q', '--detach', WT, 'HEAD'], capture_output=True, text=True)
if r.returncode != 0:
    print('cannot create worktree', r.stderr); sys.exit(2)
shutil.copy('/repo/Cargo.lock', f'{WT}/Cargo.lock')
name = 'seeded_demo_' + a.id.replace('-', '_')
demo_dst = f'{WT}/{a.crate_dir}/tests/{name}.rs'
os.makedirs(os.path.dirname(demo_dst), exist_ok=True)

def sh(cmd, timeout):
    t0 = time.time()
    try:
        r = subprocess.run(cmd, shell=True, cwd=WT, env=env, capture_output=True, text=True, timeout=timeout)
        return r.returncode, (r.stdout + r.stderr)[-20000:], time.time() - t0
    except subprocess.TimeoutExpired as e:
        return 124, 'TIMEOUT (hang) after %ds' % timeout, time.time() - t0

demo_cmd = f'cargo test --offline -p {a.package} --test {name} -- {a.args}'
result = {'id': a.id, 'property': a.prop, 'demo_cmd': demo_cmd}
try:
    shutil.copy(a.demo, demo_dst)
    rc0, out0, t = sh(demo_cmd, a.timeout * 3)
    result['demo_without_patch'] = {'rc': rc0, 'seconds': round(t, 1)}
    ap_ = subprocess.run(f'git apply {a.patch} 2>/dev/null || git apply --3way {a.patch}', shell=True, cwd=WT, capture_output=True, text=True)
    if ap_.returncode != 0:
        result['error'] = 'patch does not apply: ' + ap_.stderr[-300:]
        raise SystemExit
    subprocess.run('git reset -q', shell=True, cwd=WT)
    rc1, out1, t = sh(demo_cmd, a.timeout)
    result['demo_with_patch'] = {'rc': rc1, 'seconds': round(t, 1), 'tail': out1[-600:]}
    os.remove(demo_dst)
    # include files the change ADDS (intent-to-add makes them visible to git diff)
    subprocess.run(['git', 'add', '-N', '.'], cwd=WT, capture_output=True)
    applied = subprocess.run(['git', 'diff'], cwd=WT, capture_output=True, text=True).stdout
    rc2, out2, t = sh('cargo test --workspace --no-fail-fast --offline 2>&1 | grep -E "^test result|^test .* FAILED|^error: test failed"', 1500)
    lines = out2.strip().splitlines()
    failed = [l for l in lines if 'FAILED' in l and l.startswith('test ') and 'test result' not in l]
    oks = len([l for l in lines if l.startswith('test result: ok')])
    result['suite_with_patch'] = {'ok_result_lines': oks, 'failed_tests': failed, 'seconds': round(t, 1)}
    suite_ok = all('quote' in f for f in failed) and oks >= 30
    result['confirmed'] = (rc0 == 0 and rc1 != 0 and suite_ok)
    out_dir = f'/verif/seeded/{a.id}'
    if result['confirmed']:
        os.makedirs(out_dir, exist_ok=True)
        open(f'{out_dir}/patch.diff', 'w').write(applied)
        if os.path.abspath(a.demo) != os.path.abspath(f'{out_dir}/demo.rs'):
            shutil.copy(a.demo, f'{out_dir}/demo.rs')
        if a.notes and os.path.exists(a.notes):
            shutil.copy(a.notes, f'{out_dir}/notes_from_author.md')
        meta = {
            'id': a.id, 'breaks_property': a.prop,
            'needs_to_manifest': a.needs,
            'demo': {'file': 'demo.rs', 'install_as': f'{a.crate_dir}/tests/<name>.rs', 'run': f'cargo test --offline -p {a.package} --test <name> -- {a.args}'},
            'confirmed_by_me': {
                'where': 'scratch git worktree of /repo HEAD under /tmp/confirm (removed afterwards)',
                'repo_head': subprocess.run(['git', '-C', '/repo', 'rev-parse', '--short', 'HEAD'], capture_output=True, text=True).stdout.strip(),
                'demo_without_patch_rc': rc0, 'demo_with_patch_rc': rc1,
                'suite_with_patch': result['suite_with_patch'],
            },
        }
        if os.path.exists(f'{out_dir}/meta.json'):
            old = json.load(open(f'{out_dir}/meta.json'))
            for k in ('ported', 'detection'):
                if k in old:
                    meta[k] = old[k]
            if not a.needs and old.get('needs_to_manifest'):
                meta['needs_to_manifest'] = old['needs_to_manifest']
        json.dump(meta, open(f'{out_dir}/meta.json', 'w'), indent=1)
finally:
    subprocess.run(['git', '-C', '/repo', 'worktree', 'remove', '--force', WT], capture_output=True)
print(json.dumps(result, indent=1))
