#!/bin/bash
# Second engine for C17 (cross-check only): fixed controller histories on REAL std threads under
# Miri's seeded scheduler (weak-memory emulation, data-race detection). Writes a JSON summary.
# usage: miri_crosscheck.sh <seeds> <out.json> [scenario seed]   (with scenario+seed: replay one)
set -u
SEEDS=${1:-16}
OUT=${2:-/verif/target/run/miri_c17.json}
cd /verif/miri_c17
export RUSTFLAGS="--cfg miri_c17_real_std" CARGO_NET_OFFLINE=true CARGO_TARGET_DIR=/verif/target/miri
cp /repo/Cargo.lock Cargo.lock 2>/dev/null
mkdir -p "$(dirname "$OUT")"
if [ $# -ge 4 ]; then
  MIRIFLAGS="-Zmiri-seed=$4 -Zmiri-preemption-rate=0.2 -Zmiri-disable-isolation" cargo +nightly miri run --offline -q -- "$3"
  exit $?
fi
SC="protocol recv_cont_run run_run restart_parked_tokens restart_in_repetition mutate_while_parked early_cont_then_run"
t0=$(date +%s)
fails="[]"; runs=0
for s in $SC; do
  log=/verif/target/run/miri_$s.log
  MIRIFLAGS="-Zmiri-many-seeds=0..$SEEDS -Zmiri-preemption-rate=0.2 -Zmiri-disable-isolation" timeout 1500 cargo +nightly miri run --offline -q -- $s >$log 2>&1
  rc=$?
  ok=$(grep -c "^ok $s" $log)
  runs=$((runs+ok))
  if [ $rc -ne 0 ]; then
    seed=$(grep -o "FAILING SEED: [0-9]*" $log | head -1 | grep -o "[0-9]*")
    msg=$(grep -m1 -E "panicked at|deadlock|Undefined Behavior|error:" $log | cut -c1-300 | tr '"' "'")
    fails=$(python3 -c "import json,sys; f=json.loads(sys.argv[1]); f.append({'scenario':sys.argv[2],'seed':sys.argv[3],'rc':int(sys.argv[4]),'message':sys.argv[5]}); print(json.dumps(f))" "$fails" "$s" "${seed:-?}" "$rc" "$msg")
  fi
done
t1=$(date +%s)
python3 - "$OUT" "$SEEDS" "$runs" "$fails" "$((t1-t0))" <<'PY'
import json,sys
out,seeds,runs,fails,wall=sys.argv[1:]
json.dump({"engine":"miri (cargo +nightly miri run), real std::thread/park/mpsc/Mutex, guard OFF",
 "scenarios":["protocol","recv_cont_run","run_run","restart_parked_tokens","restart_in_repetition","mutate_while_parked","early_cont_then_run"],
 "seeds_per_scenario":int(seeds),"executions_ok":int(runs),"failures":json.loads(fails),"wall_s":int(wall),
 "flags":"-Zmiri-many-seeds -Zmiri-preemption-rate=0.2 -Zmiri-disable-isolation"}, open(out,"w"), indent=1)
PY
cat "$OUT" | head -30
