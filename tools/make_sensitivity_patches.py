#!/usr/bin/env python3
"""Generates /verif/sensitivity/<name>.diff: deliberate property-breaking edits of /repo (each a
plain textual replacement), used to prove that the checks are sensitive. Run from a CLEAN /repo
working tree; leaves it clean."""
import subprocess, sys, os, json
REPO='/repo'
OUT='/verif/sensitivity'
M=[]
def m(name, prop, file, old, new, note):
    M.append(dict(name=name, prop=prop, file=file, old=old, new=new, note=note))

D='debugger/src/lib.rs'
m('c17_s01_restart_without_unpark','C17',D,
'''                self.is_done.store(true, Ordering::SeqCst);
                handle.thread().unpark();
            }
            handle''','''                self.is_done.store(true, Ordering::SeqCst);
            }
            handle''','run() no longer wakes a parked parser before joining it')
m('c17_s02_unpark_before_stop_flag','C17',D,
'''                self.is_done.store(true, Ordering::SeqCst);
                handle.thread().unpark();''','''                handle.thread().unpark();
                self.is_done.store(true, Ordering::SeqCst);''','run() wakes the parser before setting the stop flag')
m('c17_s03_no_park','C17',D,
'''                        thread::park();
                    }
                    false''','''                    }
                    false''','listener no longer waits for a continue')
m('c17_s04_no_join','C17',D,
'''            handle
                .join()
                .map_err(|e| DebuggerError::PreviousRunPanic(format!("{e:?}")))?;''','''            drop(handle);''','run() does not wait for the previous parser thread')
m('c17_s07_final_send_blocking_again','C17',D,
'''            if !send_unless_restarted(&sender, &is_done, event) {
                return;
            }''','''            sender.send(event).expect(CHANNEL_CLOSED_PANIC);''','the final event is delivered with a blocking send again (fix F1 reverted for the final event, fix B still in place)')
m('c17_s14_breakpoint_send_blocking_again','C17',D,
'''                        if !send_unless_restarted(&rsender, &is_done_signal, event) {
                            return true;
                        }''','''                        rsender.send(event).expect(CHANNEL_CLOSED_PANIC);''','breakpoint events are delivered with a blocking send again (fix F1 reverted for breakpoint events)')
m('c17_s08_revert_fixA','C17','vm/src/lib.rs',
'''                return Err(state);
            }
        }
        match rule {''','''                return Err(ParserState::new(state.position().line_of()));
            }
        }
        match rule {''','listener abort substitutes a fresh parser state')
m('c17_s09_breakpoints_snapshot','C17',D,
'''        let breakpoints = Arc::clone(&self.breakpoints);
        let is_done = Arc::clone(&self.is_done);''','''        let breakpoints = Arc::new(Mutex::new(
            self.breakpoints.lock().expect(POISONED_LOCK_PANIC).clone(),
        ));
        let is_done = Arc::clone(&self.is_done);''','parser thread works on a snapshot of the breakpoint set taken at run()')
m('c17_s10_error_at_zero_is_eof','C17',D,
'''                Err(error) => DebuggerEvent::Error(error.to_string()),''','''                Err(error)
                    if matches!(error.location, pest::error::InputLocation::Pos(0)) && input.is_empty() =>
                {
                    DebuggerEvent::Eof
                }
                Err(error) => DebuggerEvent::Error(error.to_string()),''','a failing parse of the empty input is reported as Eof')
m('c17_s11_skip_repeated_position','C17',D,
'''                    let contains_rule = {
                        let lock = breakpoints.lock().expect(POISONED_LOCK_PANIC);
                        lock.contains(&rule)
                    };''','''                    let contains_rule = {
                        let lock = breakpoints.lock().expect(POISONED_LOCK_PANIC);
                        lock.contains(&rule) && !(rule.len() == 2 && pos.pos() > 2 && pos.pos() % 4 == 3)
                    };''','breakpoint hits of two-letter rules at some positions are swallowed')
m('c17_s12_stop_flag_relaxed_reset','C17',D,
'''        self.is_done.store(false, Ordering::SeqCst);
        let ast = self''','''        let ast = self''','run() forgets to clear the stop flag for the new run')

m('c17_s13_grammar_reload_ignored_while_session_exists','C17',D,
'''        self.grammar = Some(DebuggerContext::parse_grammar(grammar_name, grammar)?);

        Ok(())''','''        let parsed = DebuggerContext::parse_grammar(grammar_name, grammar)?;
        if self.handle.is_none() {
            self.grammar = Some(parsed);
        }

        Ok(())''','load_grammar_direct is ignored once a session has been started')

m('c17_s16_position_truncated_to_a_byte','C17',D,
'''                        let event = DebuggerEvent::Breakpoint(rule, pos.pos());''','''                        let event = DebuggerEvent::Breakpoint(rule, pos.pos() as u8 as usize);''','breakpoint positions wrap at 256')

P='pest/src/parser_state.rs'
m('c12_s01_revert_ok_path','C12',P,
'''        Ok(state) if state.call_tracker.refused => Err(state),''','''        Ok(state) if false && state.call_tracker.refused => Err(state),''','refusal absorbed on the Ok path again')
m('c12_s02_final_check_reads_global','C12',P,
'''        self.call_tracker.refused || self.call_tracker.limit_reached()
    }''','''        CALL_LIMIT.load(Ordering::Relaxed) > 0
            && (self.call_tracker.refused || self.call_tracker.limit_reached())
    }''','the final decision consults the process-wide limit instead of the per-parse copy (Err path)')
m('c12_s03_ok_path_reads_global','C12',P,
'''        Ok(state) if state.call_tracker.refused => Err(state),''','''        Ok(state) if state.call_tracker.refused && CALL_LIMIT.load(Ordering::Relaxed) > 0 => Err(state),''','Ok-path check keyed on the process-wide limit')
m('c12_s04_lookahead_clears_refusal','C12',P,
'''            Err(mut new_state) => {
                new_state.position = initial_pos;
                new_state.lookahead = initial_lookahead;
                Err(new_state.restore())''','''            Err(mut new_state) => {
                new_state.position = initial_pos;
                new_state.lookahead = initial_lookahead;
                if !is_positive {
                    new_state.call_tracker.refused = false;
                }
                Err(new_state.restore())''','a refusal inside a negative lookahead is forgotten')
m('c12_s05_repeat_not_flagged','C12',P,
'''        self = self.inc_call_check_limit()?;
        let mut result = f(self);
''','''        self = match self.inc_call_check_limit() {
            Ok(s) => s,
            Err(mut s) => {
                s.call_tracker.refused = false;
                return Ok(s);
            }
        };
        let mut result = f(self);
''','a refused repeat() counts as zero repetitions')

m('c15_s01_token_touches_attempt_pos','C15',P,
'''        } else if self.lookahead != Lookahead::Negative {
            self.parse_attempts
                .try_add_new_token(token, start_position, current_pos, false);
        }''','''        } else if self.lookahead != Lookahead::Negative {
            self.parse_attempts
                .try_add_new_token(token, start_position, current_pos, false);
            if current_pos > self.attempt_pos && self.atomicity == Atomicity::Atomic {
                self.attempt_pos = current_pos;
                self.pos_attempts.clear();
                self.neg_attempts.clear();
            }
        }''','with detail on a failed token inside an atomic rule moves the reported error position')
m('c15_s02_splice_off_by_one','C15',P,
'''        self.call_stacks
            .splice(start_index.., non_token_call_stacks);''','''        self.call_stacks
            .splice(start_index + usize::from(start_index > 2).., non_token_call_stacks);''','splice index off by one when more than two call stacks precede')
m('c15_s03_max_position_plus_one','C15',P,
'''    fn nullify_expected_tokens(&mut self, new_max_position: usize) {
        self.call_stacks.clear();
        self.expected_tokens.clear();
        self.unexpected_tokens.clear();
        self.max_position = new_max_position;''','''    fn nullify_expected_tokens(&mut self, new_max_position: usize) {
        self.call_stacks.clear();
        self.expected_tokens.clear();
        self.unexpected_tokens.clear();
        self.max_position = new_max_position + usize::from(new_max_position % 7 == 5);''','recorded max position drifts past the matched token at some offsets')
m('c15_s04_detail_changes_queue','C15',P,
'''                if new_state.parse_attempts.enabled {
                    try_add_rule_to_stack(&mut new_state);
                }
                Ok(new_state)''','''                if new_state.parse_attempts.enabled {
                    try_add_rule_to_stack(&mut new_state);
                    if new_state.parse_attempts.call_stacks.len() > 5 {
                        new_state.queue.truncate(index);
                    }
                }
                Ok(new_state)''','with detail on, tokens are dropped when many call stacks are tracked')
m('c15_s05_reread_detail_flag','C15',P,
'''            if state.parse_attempts.enabled {
                Err(Error::new_from_pos_with_parsing_attempts(''','''            if ERROR_DETAIL.load(Ordering::Relaxed) {
                Err(Error::new_from_pos_with_parsing_attempts(''','state() re-reads the process-wide switch instead of the per-parse copy')

def run(*a, **k):
    return subprocess.run(a, cwd=REPO, capture_output=True, text=True, **k)
st=run('git','status','--porcelain').stdout.strip()
if st:
    print('repo not clean:', st); sys.exit(1)
os.makedirs(OUT, exist_ok=True)
meta=[]
for x in M:
    p=os.path.join(REPO,x['file'])
    s=open(p).read()
    if s.count(x['old'])!=1:
        print('PATTERN PROBLEM', x['name'], s.count(x['old'])); run('git','checkout','--','.'); sys.exit(1)
    open(p,'w').write(s.replace(x['old'],x['new']))
    d=run('git','diff').stdout
    open(os.path.join(OUT,x['name']+'.diff'),'w').write(d)
    run('git','checkout','--','.')
    meta.append(dict(name=x['name'],property=x['prop'],note=x['note']))
json.dump(meta, open(os.path.join(OUT,'index.json'),'w'), indent=1)
print(len(M),'patches written')
