//! Fixed controller histories against the real `DebuggerContext` on real std threads.
//! usage: miri_c17 <scenario>      (exit 0 = ok; panic / deadlock = failure, reported by Miri)
use pest_debugger::{DebuggerContext, DebuggerEvent};
use std::sync::mpsc::{sync_channel, Receiver};

const GRAMMAR: &str = r#"alpha = { 'a'..'z' | 'A'..'Z' }
digit = { '0'..'9' }
ident = { !digit ~ (alpha | digit)+ }
ident_list = _{ ident ~ (" " ~ ident)* }"#;

const G2: &str = r#"top = { "a" ~ c ~ b? ~ "a" }
c = { "c" }
b = { "b" }"#;

const G3: &str = r#"top = { (r | "x")* }
r = { "y" }"#;

const G4: &str = r#"r0 = { r3 }
r1 = { r3 }
r3 = { "c" }"#;

fn ctx(grammar: &str, input: &str, bps: &[&str]) -> DebuggerContext {
    let mut c = DebuggerContext::default();
    c.load_grammar_direct("g", grammar).expect("grammar");
    c.load_input_direct(input.to_owned());
    for b in bps {
        c.add_breakpoint((*b).to_owned());
    }
    c
}

/// Expected event list from a plain VM with a recording listener (no threads).
fn expected(grammar: &str, rule: &str, input: &str, bps: &[&str]) -> Vec<DebuggerEvent> {
    let (_, rules) = pest_meta::parse_and_optimize(grammar).unwrap();
    let rec = std::sync::Arc::new(std::sync::Mutex::new(Vec::new()));
    let r2 = rec.clone();
    let bp: Vec<String> = bps.iter().map(|s| s.to_string()).collect();
    let vm = pest_vm::Vm::new_with_listener(
        rules,
        Box::new(move |rule, pos| {
            if bp.contains(&rule) {
                r2.lock().unwrap().push(DebuggerEvent::Breakpoint(rule, pos.pos()));
            }
            false
        }),
    );
    let fin = match vm.parse(rule, input) {
        Ok(_) => DebuggerEvent::Eof,
        Err(e) => DebuggerEvent::Error(e.to_string()),
    };
    let mut v = std::mem::take(&mut *rec.lock().unwrap());
    v.push(fin);
    v
}

/// protocol-following drain: recv; on Breakpoint -> cont; until the final event
fn drain(c: &DebuggerContext, rx: &Receiver<DebuggerEvent>) -> Vec<DebuggerEvent> {
    let mut got = vec![];
    loop {
        let ev = rx.recv().expect("recv");
        let fin = !matches!(ev, DebuggerEvent::Breakpoint(..));
        got.push(ev);
        if fin {
            return got;
        }
        c.cont().expect("cont");
    }
}

fn main() {
    let sc = std::env::args().nth(1).unwrap_or_else(|| "protocol".into());
    match sc.as_str() {
        // full protocol, exact sequence
        "protocol" => {
            let mut c = ctx(GRAMMAR, "ab c1", &["ident", "digit"]);
            let (tx, rx) = sync_channel(1);
            c.run("ident_list", tx).unwrap();
            let got = drain(&c, &rx);
            assert_eq!(got, expected(GRAMMAR, "ident_list", "ab c1", &["ident", "digit"]));
        }
        // restart right after a continue (defects A and B on the unrepaired tree)
        "recv_cont_run" => {
            let mut c = ctx(GRAMMAR, "ab c1", &["ident"]);
            let (tx, rx) = sync_channel(1);
            c.run("ident_list", tx).unwrap();
            let _ = rx.recv().unwrap();
            c.cont().unwrap();
            // the property's precondition: receive what has been delivered
            while rx.try_recv().is_ok() {}
            let (tx2, rx2) = sync_channel(1);
            c.run("ident_list", tx2).unwrap();
            let got = drain(&c, &rx2);
            assert_eq!(got, expected(GRAMMAR, "ident_list", "ab c1", &["ident"]));
            drop(rx);
        }
        // immediate restart, nothing received yet
        "run_run" => {
            let mut c = ctx(GRAMMAR, "ab c1", &["ident", "alpha"]);
            let (tx, rx) = sync_channel(1);
            c.run("ident_list", tx).unwrap();
            let (tx2, rx2) = sync_channel(1);
            c.run("ident_list", tx2).unwrap();
            let got = drain(&c, &rx2);
            assert_eq!(got, expected(GRAMMAR, "ident_list", "ab c1", &["ident", "alpha"]));
            drop(rx);
        }
        // restart while parked inside a rule that has tokens queued (defect A-a)
        "restart_parked_tokens" => {
            let mut c = ctx(G2, "acba", &["c"]);
            let (tx, rx) = sync_channel(1);
            c.run("top", tx).unwrap();
            assert_eq!(rx.recv().unwrap(), DebuggerEvent::Breakpoint("c".into(), 1));
            let (tx2, rx2) = sync_channel(1);
            c.run("top", tx2).unwrap();
            let got = drain(&c, &rx2);
            assert_eq!(got, expected(G2, "top", "acba", &["c"]));
            drop(rx);
        }
        // restart while parked inside a repetition (defect A-b: livelock)
        "restart_in_repetition" => {
            let mut c = ctx(G3, "x", &["r"]);
            let (tx, rx) = sync_channel(1);
            c.run("top", tx).unwrap();
            assert_eq!(rx.recv().unwrap(), DebuggerEvent::Breakpoint("r".into(), 0));
            let (tx2, rx2) = sync_channel(1);
            c.run("top", tx2).unwrap();
            let got = drain(&c, &rx2);
            assert_eq!(got, expected(G3, "top", "x", &["r"]));
            drop(rx);
        }
        // breakpoint mutation while parked, then protocol
        "mutate_while_parked" => {
            let mut c = ctx(GRAMMAR, "ab c1", &["ident"]);
            let (tx, rx) = sync_channel(2);
            c.run("ident_list", tx).unwrap();
            assert_eq!(rx.recv().unwrap(), DebuggerEvent::Breakpoint("ident".into(), 0));
            c.delete_breakpoint("ident");
            c.add_breakpoint("digit".to_owned());
            c.cont().unwrap();
            let got = drain(&c, &rx);
            // every `digit` entry of the parse comes after the stop at ident@0 (the first one is
            // the !digit look-ahead inside that ident), so the rest of the run reports them all
            assert_eq!(got, expected(GRAMMAR, "ident_list", "ab c1", &["digit"]));
        }
        // a continue issued before any breakpoint is pending, then a restart (finding C17-F1 on
        // the tree before commit c09b9e1: parser blocked in send, run() blocked in join)
        "early_cont_then_run" => {
            let mut c = ctx(G4, "", &["r3"]);
            let (tx, rx) = sync_channel(1);
            c.run("r0", tx).unwrap();
            c.cont().unwrap();
            let (tx2, rx2) = sync_channel(1);
            c.run("r1", tx2).unwrap();
            let got = drain(&c, &rx2);
            assert_eq!(got, expected(G4, "r1", "", &["r3"]));
            drop(rx);
        }
        // the same finding driven deterministically on REAL threads: after the early continue the
        // controller pauses, so the parser has passed its first breakpoint on the stale token and
        // is blocked delivering the second one when the restart arrives
        "early_cont_pause_run" => {
            let g = "top = { a ~ a ~ a }\na = { \"y\" }";
            let mut c = ctx(g, "yyy", &["a"]);
            let (tx, rx) = sync_channel(1);
            c.run("top", tx).unwrap();
            c.cont().unwrap();
            std::thread::sleep(std::time::Duration::from_millis(200));
            let (tx2, rx2) = sync_channel(1);
            // a watchdog turns the hang into a failure
            let done = std::sync::Arc::new(std::sync::atomic::AtomicBool::new(false));
            let d2 = done.clone();
            std::thread::spawn(move || {
                std::thread::sleep(std::time::Duration::from_secs(10));
                if !d2.load(std::sync::atomic::Ordering::SeqCst) {
                    eprintln!("HANG: run() did not return within 10 s");
                    std::process::exit(3);
                }
            });
            c.run("top", tx2).unwrap();
            done.store(true, std::sync::atomic::Ordering::SeqCst);
            let got = drain(&c, &rx2);
            assert_eq!(got, expected(g, "top", "yyy", &["a"]));
            drop(rx);
        }
        other => panic!("unknown scenario {other}"),
    }
    println!("ok {sc}");
}
