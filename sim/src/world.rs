//! Runs one simulated world: a closure executed as task 0 of a shuttle-engine execution under a
//! harness-owned scheduler, with panics / deadlocks / step-budget overruns caught and classified.

use crate::sched::{take_decisions, SchedSpec, SimScheduler};
use shuttle_engine::{Config, FailurePersistence, MaxSteps, Runner};
use simstd::rt::{self, Event, Faults};
use std::cell::RefCell;
use std::panic::{self, AssertUnwindSafe};
use std::sync::Once;

#[derive(Clone, Debug, PartialEq, Eq)]
pub enum Ending {
    Completed,
    Panic,
    Deadlock,
    StepBudget,
}

#[derive(Clone, Debug)]
pub struct WorldOutcome {
    pub ending: Ending,
    /// message + location of the first panic of the world (also set for deadlock / budget)
    pub panic_msg: Option<String>,
    pub events: Vec<Event>,
    pub decisions: Vec<u32>,
    pub cross_switches: u64,
    pub spurious_fired: u64,
}

thread_local! {
    static IN_WORLD: std::cell::Cell<bool> = const { std::cell::Cell::new(false) };
    static FIRST_PANIC: RefCell<Option<String>> = const { RefCell::new(None) };
}

static INIT: Once = Once::new();

/// Must be called once per process before the first world: lets shuttle install its (noisy) panic
/// hook, then replaces it by a silent one that only remembers the first panic of a world.
pub fn init() {
    INIT.call_once(|| {
        // shuttle installs its hook lazily inside the first execution
        let cfg = config(1000);
        let _ = panic::catch_unwind(AssertUnwindSafe(|| {
            Runner::new(SimScheduler::new(SchedSpec::Replay { decisions: vec![] }), cfg).run(|| {});
        }));
        panic::set_hook(Box::new(|info| {
            let msg = if let Some(s) = info.payload().downcast_ref::<&str>() {
                (*s).to_string()
            } else if let Some(s) = info.payload().downcast_ref::<String>() {
                s.clone()
            } else {
                "<non-string panic payload>".to_string()
            };
            let loc = info
                .location()
                .map(|l| format!("{}:{}", l.file(), l.line()))
                .unwrap_or_else(|| "?".into());
            if !IN_WORLD.with(|w| w.get()) && !msg.contains("was called on empty stack") {
                eprintln!("harness panic: {msg} @ {loc}");
            }
            FIRST_PANIC.with(|p| {
                let mut p = p.borrow_mut();
                if p.is_none() {
                    *p = Some(format!("{msg} @ {loc}"));
                }
            });
        }));
    });
}

fn config(max_steps: usize) -> Config {
    let mut cfg = Config::new();
    cfg.stack_size = 1 << 20;
    cfg.failure_persistence = FailurePersistence::None;
    cfg.max_steps = MaxSteps::FailAfter(max_steps);
    cfg.silence_warnings = true;
    cfg
}

pub fn run_world<F>(spec: SchedSpec, faults: Faults, max_steps: usize, f: F) -> WorldOutcome
where
    F: Fn() + Send + Sync + 'static,
{
    init();
    FIRST_PANIC.with(|p| *p.borrow_mut() = None);
    rt::reset(faults);
    let sched = SimScheduler::new(spec);
    let cfg = config(max_steps);
    IN_WORLD.with(|w| w.set(true));
    let res = panic::catch_unwind(AssertUnwindSafe(|| {
        Runner::new(sched, cfg).run(f);
    }));
    IN_WORLD.with(|w| w.set(false));
    let decisions = take_decisions();
    let (events, cross_switches, spurious_fired) = rt::with(|w| {
        w.active = false;
        (std::mem::take(&mut w.events), w.cross_switches, w.spurious_fired)
    });
    let panic_msg = FIRST_PANIC.with(|p| p.borrow_mut().take());
    let ending = match res {
        Ok(()) => Ending::Completed,
        Err(payload) => {
            let m = if let Some(s) = payload.downcast_ref::<&str>() {
                (*s).to_string()
            } else if let Some(s) = payload.downcast_ref::<String>() {
                s.clone()
            } else {
                String::new()
            };
            if m.starts_with("deadlock!") {
                Ending::Deadlock
            } else if m.starts_with("exceeded max_steps") {
                Ending::StepBudget
            } else {
                Ending::Panic
            }
        }
    };
    WorldOutcome {
        ending,
        panic_msg,
        events,
        decisions,
        cross_switches,
        spurious_fired,
    }
}
