//! Minimisation of failing runs (same violation class + signature must persist) and replay files.

use crate::c12;
use crate::c15;
use crate::c17::{self, Cmd};
use crate::cfgworld::{self, CfgOp};
use crate::gen;
use crate::parsework::{Backend, Job};
use crate::prng::{self, Rng};
use crate::sched::{SchedSpec, Strategy};
use serde_json::{json, Value};
use std::cell::Cell;
use std::time::{Duration, Instant};

thread_local! {
    static DEADLINE: Cell<Option<Instant>> = const { Cell::new(None) };
}

/// Minimisation is best effort under a wall-clock cap: when the cap is reached the smallest
/// failing case found so far is reported (it is still replay-verified by the caller).
pub fn set_time_cap(secs: u64) {
    DEADLINE.with(|d| d.set(Some(Instant::now() + Duration::from_secs(secs))));
}

fn out_of_time() -> bool {
    DEADLINE.with(|d| d.get().map(|t| Instant::now() > t).unwrap_or(false))
}

// ---------------------------------------------------------------------------------------------
// C17
// ---------------------------------------------------------------------------------------------

#[derive(Clone)]
pub struct Fail17 {
    pub w: c17::Workload,
    pub decisions: Vec<u32>,
    pub v: c17::Violation,
    pub hash: u64,
    pub history: Vec<String>,
}

fn same(a: &c17::Violation, class: &str, sig: &str) -> bool {
    a.class == class && a.signature == sig
}

/// Runs `w` under `spec`; Some(fail) if it fails with the wanted class + signature.
fn try17(w: &c17::Workload, spec: SchedSpec, class: &str, sig: &str) -> Option<Fail17> {
    let refs = c17::references(w)?;
    let out = c17::execute(w, spec);
    let mut probes = c17::Probes::default();
    let v = c17::check_history(w, &refs, &out, &mut probes)?;
    if !same(&v, class, sig) {
        return None;
    }
    Some(Fail17 {
        w: w.clone(),
        decisions: out.decisions.clone(),
        v,
        hash: c17::history_hash(&out.events),
        history: c17::render_history(&out.events),
    })
}

/// Candidate workload: first the current decision list (replayed leniently), then fresh seeds.
fn try17_any(w: &c17::Workload, decisions: &[u32], class: &str, sig: &str, tries: u64, salt: u64) -> Option<Fail17> {
    if out_of_time() {
        return None;
    }
    if let Some(f) = try17(
        w,
        SchedSpec::Replay {
            decisions: decisions.to_vec(),
        },
        class,
        sig,
    ) {
        return Some(f);
    }
    for t in 0..tries {
        if out_of_time() {
            return None;
        }
        let seed = prng::mix(salt ^ t.wrapping_mul(0x9E37_79B9));
        let strategy = match t % 4 {
            0 => Strategy::Uniform,
            1 => Strategy::Sticky(500),
            2 => Strategy::Sticky(900),
            _ => Strategy::Pct {
                changes: 2,
                horizon: 100,
            },
        };
        if let Some(f) = try17(w, SchedSpec::Seeded { seed, strategy }, class, sig) {
            return Some(f);
        }
    }
    None
}

fn switches(d: &[u32]) -> usize {
    d.windows(2).filter(|w| w[0] != w[1]).count()
}

pub fn minimise17(first: Fail17, effort: u64) -> Fail17 {
    let class = first.v.class.clone();
    let sig = first.v.signature.clone();
    let mut best = first;
    let salt = best.hash;
    // 1. script: drop commands one at a time until a fixpoint
    let mut progress = true;
    let mut rounds = 0;
    while progress && rounds < 6 {
        progress = false;
        rounds += 1;
        let mut i = 0;
        while i < best.w.script.len() {
            let mut w = best.w.clone();
            w.script.remove(i);
            if !w.script.iter().any(|c| matches!(c, Cmd::Run { .. })) {
                i += 1;
                continue;
            }
            if let Some(f) = try17_any(&w, &best.decisions, &class, &sig, effort, salt ^ i as u64) {
                best = f;
                progress = true;
            } else {
                i += 1;
            }
        }
        // simplify commands
        for i in 0..best.w.script.len() {
            let simpler: Vec<Cmd> = match &best.w.script[i] {
                Cmd::Protocol { max } if *max > 1 => vec![Cmd::Protocol { max: 1 }, Cmd::Recv],
                Cmd::Stall(n) if *n > 1 => vec![Cmd::Stall(1), Cmd::Stall(n / 2)],
                Cmd::Run { rule, cap, drain } if *cap > 1 || *drain => vec![Cmd::Run {
                    rule: rule.clone(),
                    cap: 1,
                    drain: false,
                }],
                Cmd::AddAll => vec![],
                _ => vec![],
            };
            for c in simpler {
                let mut w = best.w.clone();
                w.script[i] = c;
                if let Some(f) = try17_any(&w, &best.decisions, &class, &sig, effort, salt ^ 77 ^ i as u64) {
                    best = f;
                    progress = true;
                    break;
                }
            }
        }
        // 2. input characters
        let mut ci = 0;
        loop {
            let chars: Vec<char> = best.w.input.chars().collect();
            if ci >= chars.len() {
                break;
            }
            let mut c2 = chars.clone();
            c2.remove(ci);
            let mut w = best.w.clone();
            w.input = c2.into_iter().collect();
            if let Some(f) = try17_any(&w, &best.decisions, &class, &sig, effort, salt ^ 99 ^ ci as u64) {
                best = f;
                progress = true;
            } else {
                ci += 1;
            }
        }
        // 3. grammar AST (generated grammars only)
        if let Some(ast) = best.w.grammar_ast.clone() {
            let used: Vec<usize> = ast
                .rules
                .iter()
                .enumerate()
                .filter(|(_, r)| {
                    best.w.script.iter().any(|c| match c {
                        Cmd::Run { rule, .. } => *rule == r.name,
                        _ => false,
                    })
                })
                .map(|(i, _)| i)
                .collect();
            let mut cands = gen::shrink_grammar(&ast, &used);
            cands.truncate(120);
            for g in cands {
                let text = g.to_pest();
                if pest_meta::parse_and_optimize(&text).is_err() {
                    continue;
                }
                // rule names used by the script must still exist
                let names = g.rule_names();
                let ok = best.w.script.iter().all(|c| match c {
                    Cmd::Run { rule, .. } => names.contains(rule) || gen::BUILTINS.contains(&rule.as_str()),
                    _ => true,
                });
                if !ok {
                    continue;
                }
                let mut w = best.w.clone();
                w.grammar_text = text;
                w.grammar_ast = Some(g);
                if let Some(f) = try17_any(&w, &best.decisions, &class, &sig, effort / 2 + 1, salt ^ 1234) {
                    best = f;
                    progress = true;
                    break;
                }
            }
        }
    }
    // 4. schedule: fewer context switches, shorter tail
    let mut d = best.decisions.clone();
    let mut improved = true;
    let mut guard = 0;
    while improved && guard < 4 {
        improved = false;
        guard += 1;
        let mut i = 1;
        while i < d.len() && !out_of_time() {
            if d[i] != d[i - 1] {
                let mut d2 = d.clone();
                // extend the previous task's time slice over this decision
                d2[i] = d[i - 1];
                if switches(&d2) < switches(&d) {
                    if let Some(f) = try17(&best.w, SchedSpec::Replay { decisions: d2 }, &class, &sig) {
                        if switches(&f.decisions) < switches(&d) {
                            d = f.decisions.clone();
                            best = f;
                            improved = true;
                            continue;
                        }
                    }
                }
            }
            i += 1;
        }
    }
    // canonical: the decisions actually taken by a replay of the final list
    if let Some(f) = try17(
        &best.w,
        SchedSpec::Replay {
            decisions: best.decisions.clone(),
        },
        &class,
        &sig,
    ) {
        best = f;
    }
    best
}

pub fn replay_json17(f: &Fail17, seed: u64, index: Option<u64>) -> Value {
    json!({
        "property": "C17",
        "kind": "c17",
        "class": f.v.class,
        "signature": f.v.signature,
        "detail": f.v.detail,
        "verif_seed": seed,
        "run_index": index,
        "workload": f.w.to_json(),
        "schedule": {"decisions": f.decisions, "context_switches": switches(&f.decisions)},
        "history_hash": format!("{:016x}", f.hash),
        "history": f.history,
    })
}

// ---------------------------------------------------------------------------------------------
// C12 / C15 single-threaded jobs
// ---------------------------------------------------------------------------------------------

#[derive(Clone)]
pub struct FailJob {
    pub prop: String,
    pub job: Job,
    pub class: String,
    pub detail: String,
    pub k: Option<usize>,
}

fn eval_job_capped(prop: &str, job: &Job) -> Option<(String, String, Option<usize>)> {
    if out_of_time() {
        return None;
    }
    eval_job(prop, job)
}

fn eval_job(prop: &str, job: &Job) -> Option<(String, String, Option<usize>)> {
    let mut rng = Rng::new(1);
    if prop == "C12" {
        let mut s = c12::SweepStats::default();
        match c12::sweep(job, 200_000, 4000, &mut rng, &mut s) {
            Ok(Some(v)) => Some((v.class, v.detail, v.k)),
            _ => None,
        }
    } else {
        let mut s = c15::DiffStats::default();
        match c15::differential(job, 200_000, 4000, &mut rng, &mut s) {
            Ok(Some(v)) => Some((v.class, v.detail, v.k)),
            _ => None,
        }
    }
}

pub fn minimise_job(prop: &str, job: &Job, ast: Option<(gen::Grammar, usize)>) -> Option<FailJob> {
    let (class, detail, k) = eval_job(prop, job)?;
    let mut best = FailJob {
        prop: prop.to_string(),
        job: job.clone(),
        class: class.clone(),
        detail,
        k,
    };
    let mut ast = ast;
    let mut progress = true;
    let mut rounds = 0;
    while progress && rounds < 8 {
        progress = false;
        rounds += 1;
        // input characters
        let mut ci = 0;
        loop {
            let chars: Vec<char> = best.job.input.chars().collect();
            if ci >= chars.len() {
                break;
            }
            let mut c2 = chars.clone();
            c2.remove(ci);
            let mut j = best.job.clone();
            j.input = c2.into_iter().collect();
            match eval_job_capped(prop, &j) {
                Some((c, d, k)) if c == class => {
                    best.job = j;
                    best.detail = d;
                    best.k = k;
                    progress = true;
                }
                _ => ci += 1,
            }
        }
        // grammar
        if let (Some((g, start)), Backend::Vm { rule, .. }) = (ast.clone(), best.job.backend.clone()) {
            let cands = gen::shrink_grammar(&g, &[start]);
            for h in cands.into_iter().take(200) {
                let text = h.to_pest();
                if pest_meta::parse_and_optimize(&text).is_err() {
                    continue;
                }
                if !h.rules.iter().any(|r| r.name == rule) {
                    continue;
                }
                let j = Job {
                    backend: Backend::Vm {
                        grammar: text,
                        rule: rule.clone(),
                    },
                    input: best.job.input.clone(),
                };
                if let Some((c, d, k)) = eval_job_capped(prop, &j) {
                    if c == class {
                        best.job = j;
                        best.detail = d;
                        best.k = k;
                        ast = Some((h, start));
                        progress = true;
                        break;
                    }
                }
            }
        }
    }
    Some(best)
}

pub fn replay_json_job(f: &FailJob, seed: u64, index: Option<u64>) -> Value {
    json!({
        "property": f.prop,
        "kind": "job",
        "class": f.class,
        "signature": "",
        "detail": f.detail,
        "k": f.k,
        "verif_seed": seed,
        "run_index": index,
        "job": f.job.to_json(),
    })
}

// ---------------------------------------------------------------------------------------------
// configuration worlds
// ---------------------------------------------------------------------------------------------

#[derive(Clone)]
pub struct FailCfg {
    pub prop: String,
    pub w: cfgworld::CfgWorkload,
    pub decisions: Vec<u32>,
    pub class: String,
    pub detail: String,
    pub hash: u64,
    pub history: Vec<String>,
}

fn try_cfg(prop: &str, w: &cfgworld::CfgWorkload, spec: SchedSpec, class: &str) -> Option<FailCfg> {
    let run = cfgworld::execute(w, spec)?;
    let mut p = cfgworld::CfgProbes::default();
    let v = cfgworld::check(prop, w, &run, &mut p)?;
    if v.class != class {
        return None;
    }
    Some(FailCfg {
        prop: prop.to_string(),
        w: w.clone(),
        decisions: run.world.decisions.clone(),
        class: v.class,
        detail: v.detail,
        hash: c17::history_hash(&run.world.events),
        history: c17::render_history(&run.world.events),
    })
}

fn try_cfg_any(prop: &str, w: &cfgworld::CfgWorkload, d: &[u32], class: &str, tries: u64, salt: u64) -> Option<FailCfg> {
    if out_of_time() {
        return None;
    }
    if let Some(f) = try_cfg(prop, w, SchedSpec::Replay { decisions: d.to_vec() }, class) {
        return Some(f);
    }
    for t in 0..tries {
        let seed = prng::mix(salt ^ t);
        let strategy = if t % 2 == 0 { Strategy::Uniform } else { Strategy::Sticky(800) };
        if let Some(f) = try_cfg(prop, w, SchedSpec::Seeded { seed, strategy }, class) {
            return Some(f);
        }
    }
    None
}

pub fn minimise_cfg(first: FailCfg, effort: u64) -> FailCfg {
    let class = first.class.clone();
    let prop = first.prop.clone();
    let mut best = first;
    let salt = best.hash;
    let mut progress = true;
    let mut rounds = 0;
    while progress && rounds < 5 {
        progress = false;
        rounds += 1;
        let mut i = 0;
        while i < best.w.script.len() {
            let mut w = best.w.clone();
            w.script.remove(i);
            if let Some(f) = try_cfg_any(&prop, &w, &best.decisions, &class, effort, salt ^ i as u64) {
                best = f;
                progress = true;
            } else {
                i += 1;
            }
        }
        for i in 0..best.w.script.len() {
            if let CfgOp::Stall(n) = best.w.script[i] {
                if n > 1 {
                    let mut w = best.w.clone();
                    w.script[i] = CfgOp::Stall(1);
                    if let Some(f) = try_cfg_any(&prop, &w, &best.decisions, &class, effort, salt ^ 5) {
                        best = f;
                        progress = true;
                    }
                }
            }
        }
        // drop jobs from threads / whole threads
        let mut t = 0;
        while t < best.w.threads.len() {
            let mut j = 0;
            let mut removed_thread = false;
            while j < best.w.threads[t].len() {
                let mut w = best.w.clone();
                w.threads[t].remove(j);
                if w.threads[t].is_empty() {
                    w.threads.remove(t);
                }
                if w.threads.is_empty() {
                    j += 1;
                    continue;
                }
                if let Some(f) = try_cfg_any(&prop, &w, &best.decisions, &class, effort, salt ^ 9 ^ (t * 7 + j) as u64) {
                    let gone = f.w.threads.len() < best.w.threads.len();
                    best = f;
                    progress = true;
                    if gone {
                        removed_thread = true;
                        break;
                    }
                } else {
                    j += 1;
                }
            }
            if !removed_thread {
                t += 1;
            }
        }
        // input characters of each job
        for ji in 0..best.w.jobs.len() {
            let mut ci = 0;
            loop {
                let chars: Vec<char> = best.w.jobs[ji].input.chars().collect();
                if ci >= chars.len() {
                    break;
                }
                let mut c2 = chars.clone();
                c2.remove(ci);
                let mut w = best.w.clone();
                w.jobs[ji].input = c2.into_iter().collect();
                if let Some(f) = try_cfg_any(&prop, &w, &best.decisions, &class, effort / 2 + 1, salt ^ 31) {
                    best = f;
                    progress = true;
                } else {
                    ci += 1;
                }
            }
        }
    }
    // schedule
    let mut d = best.decisions.clone();
    let mut i = 1;
    while i < d.len() && !out_of_time() {
        if d[i] != d[i - 1] {
            let mut d2 = d.clone();
            d2[i] = d[i - 1];
            if let Some(f) = try_cfg(&prop, &best.w, SchedSpec::Replay { decisions: d2 }, &class) {
                if switches(&f.decisions) < switches(&d) {
                    d = f.decisions.clone();
                    best = f;
                    continue;
                }
            }
        }
        i += 1;
    }
    best
}

pub fn replay_json_cfg(f: &FailCfg, seed: u64, index: Option<u64>) -> Value {
    json!({
        "property": f.prop,
        "kind": "cfg",
        "class": format!("cfg:{}", f.class),
        "signature": "",
        "detail": f.detail,
        "verif_seed": seed,
        "run_index": index,
        "workload": f.w.to_json(),
        "schedule": {"decisions": f.decisions, "context_switches": switches(&f.decisions)},
        "history_hash": format!("{:016x}", f.hash),
        "history": f.history,
    })
}

// ---------------------------------------------------------------------------------------------
// replay
// ---------------------------------------------------------------------------------------------

pub struct ReplayResult {
    pub reproduced: bool,
    pub class: String,
    pub signature: String,
    pub detail: String,
    pub hash_matches: bool,
}

pub fn replay(v: &Value) -> Result<ReplayResult, String> {
    let kind = v.get("kind").and_then(|x| x.as_str()).ok_or("no kind")?;
    let want_class = v.get("class").and_then(|x| x.as_str()).unwrap_or("").to_string();
    let want_sig = v.get("signature").and_then(|x| x.as_str()).unwrap_or("").to_string();
    let want_hash = v.get("history_hash").and_then(|x| x.as_str()).unwrap_or("").to_string();
    let decisions: Vec<u32> = v
        .get("schedule")
        .and_then(|s| s.get("decisions"))
        .and_then(|d| d.as_array())
        .map(|a| a.iter().filter_map(|x| x.as_u64().map(|y| y as u32)).collect())
        .unwrap_or_default();
    match kind {
        "c17" => {
            let w = c17::Workload::from_json(v.get("workload").ok_or("no workload")?).ok_or("bad workload")?;
            let refs = c17::references(&w).ok_or("grammar does not load / reference too expensive")?;
            let out = c17::execute(&w, SchedSpec::Replay { decisions });
            let mut probes = c17::Probes::default();
            let got = c17::check_history(&w, &refs, &out, &mut probes);
            let h = format!("{:016x}", c17::history_hash(&out.events));
            Ok(match got {
                Some(g) => ReplayResult {
                    reproduced: g.class == want_class && g.signature == want_sig,
                    class: g.class,
                    signature: g.signature,
                    detail: g.detail,
                    hash_matches: h == want_hash,
                },
                None => ReplayResult {
                    reproduced: false,
                    class: "ok".into(),
                    signature: String::new(),
                    detail: String::new(),
                    hash_matches: h == want_hash,
                },
            })
        }
        "job" => {
            let prop = v.get("property").and_then(|x| x.as_str()).unwrap_or("C12");
            let job = Job::from_json(v.get("job").ok_or("no job")?).ok_or("bad job")?;
            Ok(match eval_job(prop, &job) {
                Some((c, d, _)) => ReplayResult {
                    reproduced: c == want_class,
                    class: c,
                    signature: String::new(),
                    detail: d,
                    hash_matches: true,
                },
                None => ReplayResult {
                    reproduced: false,
                    class: "ok".into(),
                    signature: String::new(),
                    detail: String::new(),
                    hash_matches: true,
                },
            })
        }
        "cfg" => {
            let prop = v.get("property").and_then(|x| x.as_str()).unwrap_or("C12").to_string();
            let w = cfgworld::CfgWorkload::from_json(v.get("workload").ok_or("no workload")?).ok_or("bad workload")?;
            let run = cfgworld::execute(&w, SchedSpec::Replay { decisions }).ok_or("grammar does not load")?;
            let mut p = cfgworld::CfgProbes::default();
            let got = cfgworld::check(&prop, &w, &run, &mut p);
            let h = format!("{:016x}", c17::history_hash(&run.world.events));
            Ok(match got {
                Some(g) => ReplayResult {
                    reproduced: format!("cfg:{}", g.class) == want_class,
                    class: format!("cfg:{}", g.class),
                    signature: String::new(),
                    detail: g.detail,
                    hash_matches: h == want_hash,
                },
                None => ReplayResult {
                    reproduced: false,
                    class: "ok".into(),
                    signature: String::new(),
                    detail: String::new(),
                    hash_matches: h == want_hash,
                },
            })
        }
        other => Err(format!("unknown replay kind {other}")),
    }
}
