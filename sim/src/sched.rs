//! Schedulers owned by the harness: a seeded strategy scheduler (uniform / sticky / PCT-like /
//! starve) that records every decision, and a replay scheduler that follows a recorded list.

use crate::prng::Rng;
use shuttle_engine::scheduler::{Schedule, Scheduler, Task, TaskId};
use std::cell::RefCell;

#[derive(Clone, Debug, PartialEq, Eq)]
pub enum Strategy {
    Uniform,
    /// stay on the current task with probability p/1000
    Sticky(u32),
    /// PCT-like: random priorities, `changes` priority-change points within the first `horizon` steps
    Pct { changes: u32, horizon: u32 },
    /// never run task `victim` during steps `from..from+len` while another task is runnable
    Starve { victim: u32, from: u32, len: u32 },
}

impl Strategy {
    pub fn name(&self) -> &'static str {
        match self {
            Strategy::Uniform => "uniform",
            Strategy::Sticky(_) => "sticky",
            Strategy::Pct { .. } => "pct",
            Strategy::Starve { .. } => "starve",
        }
    }
    pub fn describe(&self) -> String {
        format!("{self:?}")
    }
    pub fn pick(rng: &mut Rng) -> Strategy {
        match rng.below(10) {
            0 | 1 => Strategy::Uniform,
            2 => Strategy::Sticky(500),
            3 | 4 => Strategy::Sticky(900),
            5 => Strategy::Sticky(990),
            6 | 7 => Strategy::Pct {
                changes: rng.range(1, 3) as u32,
                horizon: [50u32, 200, 1000][rng.below(3)],
            },
            _ => Strategy::Starve {
                victim: rng.below(3) as u32,
                from: rng.below(40) as u32,
                len: [5u32, 20, 100, 1000][rng.below(4)],
            },
        }
    }
}

#[derive(Clone, Debug, PartialEq, Eq)]
pub enum SchedSpec {
    Seeded { seed: u64, strategy: Strategy },
    /// explicit decision list (task id per scheduling point)
    Replay { decisions: Vec<u32> },
}

thread_local! {
    /// decisions of the world that is running / ran last on this OS thread
    pub static DECISIONS: RefCell<Vec<u32>> = const { RefCell::new(Vec::new()) };
}

pub fn take_decisions() -> Vec<u32> {
    DECISIONS.with(|d| std::mem::take(&mut *d.borrow_mut()))
}

pub struct SimScheduler {
    spec: SchedSpec,
    rng: Rng,
    data_rng: Rng,
    started: bool,
    step: u32,
    prio: Vec<u64>,
    change_points: Vec<u32>,
}

impl SimScheduler {
    pub fn new(spec: SchedSpec) -> Self {
        let seed = match &spec {
            SchedSpec::Seeded { seed, .. } => *seed,
            SchedSpec::Replay { .. } => 0,
        };
        let mut rng = Rng::stream(seed, "schedule");
        let mut change_points = vec![];
        if let SchedSpec::Seeded {
            strategy: Strategy::Pct { changes, horizon },
            ..
        } = &spec
        {
            for _ in 0..*changes {
                change_points.push(rng.below(*horizon as usize) as u32);
            }
        }
        SimScheduler {
            spec,
            rng,
            data_rng: Rng::stream(seed, "schedule-data"),
            started: false,
            step: 0,
            prio: vec![],
            change_points,
        }
    }

    fn prio_of(&mut self, t: usize) -> u64 {
        while self.prio.len() <= t {
            // high random priorities; change points assign low, decreasing ones
            let p = (self.rng.next_u64() >> 8) | (1u64 << 60);
            self.prio.push(p);
        }
        self.prio[t]
    }
}

impl Scheduler for SimScheduler {
    fn new_execution(&mut self) -> Option<Schedule> {
        if self.started {
            return None;
        }
        self.started = true;
        DECISIONS.with(|d| d.borrow_mut().clear());
        Some(Schedule::new(0))
    }

    fn next_task(&mut self, runnable_tasks: &[&Task], current: Option<TaskId>, _is_yielding: bool) -> Option<TaskId> {
        // only tasks that are really runnable: never wake a blocked task spuriously
        let mut ids: Vec<usize> = runnable_tasks
            .iter()
            .filter(|t| t.runnable())
            .map(|t| usize::from(t.id()))
            .collect();
        if ids.is_empty() {
            return None;
        }
        ids.sort_unstable();
        let cur: Option<usize> = current.map(usize::from);
        let cur_runnable = cur.map(|c| ids.contains(&c)).unwrap_or(false);
        let step = self.step;
        self.step += 1;
        // a task that sleeps / yields gives way: some OTHER runnable task runs next (replay
        // lists were recorded under the same rule, so they stay valid)
        let others: Vec<usize> = ids.iter().copied().filter(|t| Some(*t) != cur).collect();
        let must_give_way = _is_yielding && cur_runnable && !others.is_empty();
        if must_give_way {
            if let SchedSpec::Seeded { strategy: Strategy::Pct { .. }, .. } = &self.spec {
                if let Some(c) = cur {
                    let _ = self.prio_of(c);
                    self.prio[c] = (1u64 << 40) - step as u64;
                }
            }
            ids = others;
        }
        let cur_runnable = cur_runnable && !must_give_way;
        let choice: usize = match &self.spec {
            SchedSpec::Replay { decisions } => {
                let want = decisions.get(step as usize).map(|d| *d as usize);
                match want {
                    Some(w) if ids.contains(&w) => w,
                    _ => {
                        if cur_runnable {
                            cur.unwrap()
                        } else {
                            ids[0]
                        }
                    }
                }
            }
            SchedSpec::Seeded { strategy, .. } => match strategy.clone() {
                Strategy::Uniform => ids[self.rng.below(ids.len())],
                Strategy::Sticky(p) => {
                    if cur_runnable && (self.rng.next_u64() % 1000) < p as u64 {
                        cur.unwrap()
                    } else {
                        ids[self.rng.below(ids.len())]
                    }
                }
                Strategy::Pct { .. } => {
                    if self.change_points.contains(&step) {
                        if let Some(c) = cur {
                            let _ = self.prio_of(c);
                            // lower than every initial priority, later changes lower still
                            self.prio[c] = (1u64 << 40) - step as u64;
                        }
                    }
                    let mut best = ids[0];
                    let mut bp = 0u64;
                    for t in ids.iter() {
                        let p = self.prio_of(*t);
                        if p > bp {
                            bp = p;
                            best = *t;
                        }
                    }
                    best
                }
                Strategy::Starve { victim, from, len } => {
                    let others: Vec<usize> = ids.iter().copied().filter(|t| *t != victim as usize).collect();
                    if step >= from && step < from.saturating_add(len) && !others.is_empty() {
                        if cur_runnable && cur != Some(victim as usize) && (self.rng.next_u64() % 10) < 8 {
                            cur.unwrap()
                        } else {
                            others[self.rng.below(others.len())]
                        }
                    } else if cur_runnable && (self.rng.next_u64() % 10) < 7 {
                        cur.unwrap()
                    } else {
                        ids[self.rng.below(ids.len())]
                    }
                }
            },
        };
        DECISIONS.with(|d| d.borrow_mut().push(choice as u32));
        Some(TaskId::from(choice))
    }

    fn next_u64(&mut self) -> u64 {
        self.data_rng.next_u64()
    }
}
