//! The harness side of hook H1 (`pest::verif`): counts combinator calls / refusals, records the
//! configuration values every parse loads, and — inside a simulated world — turns the sites into
//! scheduling points and history events.

use pest::verif::Site;
use simstd::rt::{self, EvKind};
use std::cell::RefCell;

#[derive(Default, Clone, Debug)]
pub struct HookState {
    pub calls: u64,
    pub refused: u64,
    pub limit_loads: Vec<usize>,
    pub detail_loads: Vec<bool>,
    /// inside a simulated world: sites are scheduling points + history events
    pub sim: bool,
    /// 1-in-n `Call` sites is a scheduling point (K3); 0 = none
    pub call_yield_every: u64,
    pub call_counter: u64,
}

thread_local! {
    static HS: RefCell<HookState> = RefCell::new(HookState::default());
}

pub fn with<R>(f: impl FnOnce(&mut HookState) -> R) -> R {
    HS.with(|h| f(&mut h.borrow_mut()))
}

fn on_site(site: Site) {
    let (sim, yield_now) = with(|h| {
        let mut y = false;
        match site {
            Site::Call { refused } => {
                h.calls += 1;
                if refused {
                    h.refused += 1;
                }
                if h.sim && h.call_yield_every > 0 {
                    h.call_counter += 1;
                    if h.call_counter % h.call_yield_every == 0 {
                        y = true;
                    }
                }
            }
            Site::CallLimitLoad(v) => h.limit_loads.push(v),
            Site::ErrorDetailLoad(v) => h.detail_loads.push(v),
            Site::Yield => y = h.sim,
            Site::CallLimitStore(_) | Site::ErrorDetailStore(_) => y = h.sim,
        }
        (h.sim, y)
    });
    if !sim || !rt::in_simulation() {
        return;
    }
    match site {
        // stores: scheduling point first, then the record; the store itself follows at once
        Site::CallLimitStore(v) => {
            rt::switch();
            rt::log(EvKind::Cfg(format!("store limit {v}")));
        }
        Site::ErrorDetailStore(v) => {
            rt::switch();
            rt::log(EvKind::Cfg(format!("store detail {v}")));
        }
        // loads: record only (the value was read / is read with no scheduling point in between)
        Site::CallLimitLoad(v) => rt::log(EvKind::Cfg(format!("load limit {v}"))),
        Site::ErrorDetailLoad(v) => rt::log(EvKind::Cfg(format!("load detail {v}"))),
        Site::Yield => rt::switch(),
        Site::Call { .. } => {
            if yield_now {
                rt::switch();
            }
        }
    }
}

pub fn install() {
    pest::verif::set_hook(Some(on_site));
}

/// Reset the counters (and leave simulation mode).
pub fn reset() {
    with(|h| *h = HookState::default());
}

pub fn reset_sim(call_yield_every: u64) {
    with(|h| {
        *h = HookState::default();
        h.sim = true;
        h.call_yield_every = call_yield_every;
    });
}

pub fn counts() -> (u64, u64) {
    with(|h| (h.calls, h.refused))
}
