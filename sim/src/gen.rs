//! Seeded generator of small pest grammars (as an AST that is printed to pest text, so the real
//! meta-parser / validator / optimizer are always in the loop) and of inputs sampled from them.
//!
//! Termination of every parse is by construction: rule i references only rules j > i, plus an
//! optional self-reference guarded by a non-empty literal. `POP`/`PEEK` only appear as the tail of
//! a sequence that starts with a `PUSH(..)` (they are documented to panic on an empty stack).

use crate::prng::Rng;

#[derive(Clone, Debug, PartialEq, Eq)]
pub enum Ex {
    Str(String),
    Insens(String),
    Range(char, char),
    Builtin(&'static str),
    Ref(usize),
    Seq(Vec<Ex>),
    Choice(Vec<Ex>),
    Opt(Box<Ex>),
    Star(Box<Ex>),
    Plus(Box<Ex>),
    RepExact(Box<Ex>, u32),
    RepMinMax(Box<Ex>, u32, u32),
    RepMin(Box<Ex>, u32),
    RepMax(Box<Ex>, u32),
    PosPred(Box<Ex>),
    NegPred(Box<Ex>),
    /// `PUSH(e) ~ mid.. ~ tail` where tail is POP / PEEK (+ optional DROP / PEEK_ALL / ...)
    StackBlock(Box<Ex>, Vec<Ex>, Vec<&'static str>),
    /// `PUSH("lit")`, only generated as the first `mid` element of a StackBlock
    Push2(String),
}

#[derive(Clone, Debug, PartialEq, Eq)]
pub struct RuleDef {
    pub name: String,
    pub modifier: &'static str,
    pub body: Ex,
}

#[derive(Clone, Debug, PartialEq, Eq)]
pub struct Grammar {
    pub rules: Vec<RuleDef>,
    pub whitespace: bool,
    pub comment: bool,
}

/// a/b/c, blank, newline and multi-byte characters (two- and three-byte; 'à' and 'х' end in the
/// bytes 0xA0 / 0x85 that are whitespace code points when misread as Latin-1)
const ALPHA: [char; 9] = ['a', 'b', 'c', ' ', '\n', 'é', 'à', 'х', '日'];
pub const BUILTINS: [&str; 11] = [
    "ANY",
    "SOI",
    "EOI",
    "ASCII_DIGIT",
    "ASCII_ALPHA",
    "NEWLINE",
    "ASCII_ALPHANUMERIC",
    "ASCII_HEX_DIGIT",
    "LETTER",
    "ALPHABETIC",
    "ASCII",
];

/// stack inspections that never panic and never remove anything: usable as free-standing leaves
pub const FREE_STACK_LEAVES: [&str; 5] = ["PEEK_ALL", "PEEK[..]", "PEEK[0..1]", "PEEK[-1..]", "PEEK[1..]"];

/// free-standing stack operations that change the stack or panic on an empty one; a job whose
/// unlimited parse panics is discarded, so they are safe to generate where every parse is probed
/// first (C12/C15), and they reach what guarded stack blocks cannot: a POP whose PUSH was skipped
pub const WILD_STACK_LEAVES: [&str; 4] = ["POP", "PEEK", "DROP", "POP_ALL"];

const RANGES: [(char, char); 8] = [
    ('a', 'c'),
    ('a', 'a'),
    ('b', 'c'),
    ('a', 'é'),
    ('à', 'é'),
    ('а', 'я'),
    ('一', '龥'),
    ('\u{80}', '\u{10ffff}'),
];

fn esc(s: &str) -> String {
    let mut o = String::new();
    for c in s.chars() {
        match c {
            '\n' => o.push_str("\\n"),
            '"' => o.push_str("\\\""),
            '\\' => o.push_str("\\\\"),
            c => o.push(c),
        }
    }
    o
}

fn esc_char(c: char) -> String {
    match c {
        '\n' => "\\n".into(),
        '\'' => "\\'".into(),
        '\\' => "\\\\".into(),
        c => c.to_string(),
    }
}

impl Ex {
    pub fn print(&self, g: &Grammar, out: &mut String) {
        match self {
            Ex::Str(s) => {
                out.push('"');
                out.push_str(&esc(s));
                out.push('"');
            }
            Ex::Insens(s) => {
                out.push_str("^\"");
                out.push_str(&esc(s));
                out.push('"');
            }
            Ex::Range(a, b) => {
                out.push_str(&format!("'{}'..'{}'", esc_char(*a), esc_char(*b)));
            }
            Ex::Builtin(b) => out.push_str(b),
            Ex::Push2(l) => {
                out.push_str("PUSH(\"");
                out.push_str(&esc(l));
                out.push_str("\")");
            }
            Ex::Ref(i) => out.push_str(&g.rules[*i].name),
            Ex::Seq(xs) => {
                out.push('(');
                for (i, x) in xs.iter().enumerate() {
                    if i > 0 {
                        out.push_str(" ~ ");
                    }
                    x.print(g, out);
                }
                out.push(')');
            }
            Ex::Choice(xs) => {
                out.push('(');
                for (i, x) in xs.iter().enumerate() {
                    if i > 0 {
                        out.push_str(" | ");
                    }
                    x.print(g, out);
                }
                out.push(')');
            }
            Ex::Opt(e) => {
                e.print_atom(g, out);
                out.push('?');
            }
            Ex::Star(e) => {
                e.print_atom(g, out);
                out.push('*');
            }
            Ex::Plus(e) => {
                e.print_atom(g, out);
                out.push('+');
            }
            Ex::RepExact(e, n) => {
                e.print_atom(g, out);
                out.push_str(&format!("{{{n}}}"));
            }
            Ex::RepMinMax(e, n, m) => {
                e.print_atom(g, out);
                out.push_str(&format!("{{{n},{m}}}"));
            }
            Ex::RepMin(e, n) => {
                e.print_atom(g, out);
                out.push_str(&format!("{{{n},}}"));
            }
            Ex::RepMax(e, m) => {
                e.print_atom(g, out);
                out.push_str(&format!("{{,{m}}}"));
            }
            Ex::PosPred(e) => {
                out.push('&');
                e.print_atom(g, out);
            }
            Ex::NegPred(e) => {
                out.push('!');
                e.print_atom(g, out);
            }
            Ex::StackBlock(p, mid, tail) => {
                out.push_str("(PUSH(");
                p.print(g, out);
                out.push(')');
                for m in mid {
                    out.push_str(" ~ ");
                    m.print(g, out);
                }
                for t in tail {
                    out.push_str(" ~ ");
                    out.push_str(t);
                }
                out.push(')');
            }
        }
    }

    fn print_atom(&self, g: &Grammar, out: &mut String) {
        match self {
            Ex::Opt(_)
            | Ex::Star(_)
            | Ex::Plus(_)
            | Ex::RepExact(..)
            | Ex::RepMinMax(..)
            | Ex::RepMin(..)
            | Ex::RepMax(..)
            | Ex::PosPred(_)
            | Ex::NegPred(_) => {
                out.push('(');
                self.print(g, out);
                out.push(')');
            }
            _ => self.print(g, out),
        }
    }

    pub fn children(&self) -> Vec<&Ex> {
        match self {
            Ex::Seq(xs) | Ex::Choice(xs) => xs.iter().collect(),
            Ex::Opt(e)
            | Ex::Star(e)
            | Ex::Plus(e)
            | Ex::RepExact(e, _)
            | Ex::RepMinMax(e, _, _)
            | Ex::RepMin(e, _)
            | Ex::RepMax(e, _)
            | Ex::PosPred(e)
            | Ex::NegPred(e) => vec![e],
            Ex::StackBlock(p, mid, _) => {
                let mut v: Vec<&Ex> = vec![p];
                v.extend(mid.iter());
                v
            }
            _ => vec![],
        }
    }

    pub fn size(&self) -> usize {
        1 + self.children().iter().map(|c| c.size()).sum::<usize>()
    }

    pub fn refs(&self, out: &mut Vec<usize>) {
        if let Ex::Ref(i) = self {
            out.push(*i);
        }
        for c in self.children() {
            c.refs(out);
        }
    }
}

impl Grammar {
    pub fn to_pest(&self) -> String {
        let mut s = String::new();
        for r in &self.rules {
            s.push_str(&r.name);
            s.push_str(" = ");
            s.push_str(r.modifier);
            s.push_str("{ ");
            r.body.print(self, &mut s);
            s.push_str(" }\n");
        }
        if self.whitespace {
            s.push_str("WHITESPACE = _{ \" \" }\n");
        }
        if self.comment {
            s.push_str("COMMENT = _{ \"#\" ~ (!\"\\n\" ~ ANY)* }\n");
        }
        s
    }

    pub fn rule_names(&self) -> Vec<String> {
        let mut v: Vec<String> = self.rules.iter().map(|r| r.name.clone()).collect();
        if self.whitespace {
            v.push("WHITESPACE".into());
        }
        if self.comment {
            v.push("COMMENT".into());
        }
        v
    }

    pub fn size(&self) -> usize {
        self.rules.iter().map(|r| r.body.size()).sum()
    }
}

pub struct GenCfg {
    pub max_rules: usize,
    pub max_depth: usize,
    pub stack_ops: bool,
    /// free-standing PEEK_ALL / PEEK[a..b] leaves. The validator treats them as progressing
    /// although they match the empty string on an empty stack (a gap of property C06), so
    /// `PEEK[..]*` can loop forever; they are generated only where every parse runs under a call
    /// budget (C12/C15), never for the debugger worlds of C17.
    pub free_stack_leaves: bool,
    /// free-standing POP / PEEK / DROP and PUSH("lit") leaves (they cannot loop: POP/PEEK consume
    /// a non-empty literal or panic, DROP shrinks the stack); jobs whose plain parse panics are
    /// discarded
    pub wild_stack_leaves: bool,
}

impl Default for GenCfg {
    fn default() -> Self {
        GenCfg {
            max_rules: 6,
            max_depth: 4,
            stack_ops: true,
            free_stack_leaves: true,
            wild_stack_leaves: true,
        }
    }
}

fn gen_lit(rng: &mut Rng, comment: bool) -> String {
    let n = if rng.chance(1, 80) {
        // very long literal: expected-token rendering, fixed-offset slicing
        rng.range(18, 40)
    } else if rng.chance(1, 25) {
        rng.range(5, 12)
    } else if rng.chance(3, 4) {
        1
    } else {
        2
    };
    let mut s = String::new();
    for _ in 0..n {
        if comment && rng.chance(1, 12) {
            s.push('#');
        } else {
            // bias towards a/b/c
            let c = if rng.chance(3, 4) {
                ALPHA[rng.below(3)]
            } else {
                ALPHA[rng.below(ALPHA.len())]
            };
            s.push(c);
        }
    }
    s
}

fn gen_leaf(rng: &mut Rng, rule: usize, nrules: usize, comment: bool, free_stack: bool, wild: bool) -> Ex {
    let k = rng.below(100);
    if k < 40 {
        Ex::Str(gen_lit(rng, comment))
    } else if k < 46 {
        let mut s = gen_lit(rng, false);
        s.retain(|c| c.is_ascii());
        if s.is_empty() {
            s.push('a');
        }
        Ex::Insens(s)
    } else if k < 54 {
        let (lo, hi) = RANGES[if rng.chance(2, 3) { rng.below(3) } else { rng.below(RANGES.len()) }];
        Ex::Range(lo, hi)
    } else if k < 56 && (free_stack || wild) {
        match rng.below(5) {
            // POP_ALL succeeds on an empty stack without consuming: only with free_stack
            0 if wild => Ex::Builtin(WILD_STACK_LEAVES[rng.below(if free_stack { 4 } else { 3 })]),
            1 | 2 if wild => Ex::Push2(gen_lit(rng, false)),
            _ if free_stack => Ex::Builtin(FREE_STACK_LEAVES[rng.below(FREE_STACK_LEAVES.len())]),
            _ => Ex::Str(gen_lit(rng, comment)),
        }
    } else if k < 64 {
        Ex::Builtin(BUILTINS[rng.below(BUILTINS.len())])
    } else if rule + 1 < nrules {
        Ex::Ref(rng.range(rule + 1, nrules - 1))
    } else {
        Ex::Str(gen_lit(rng, comment))
    }
}

fn gen_ex(rng: &mut Rng, rule: usize, nrules: usize, depth: usize, cfg: &GenCfg, comment: bool) -> Ex {
    if depth == 0 || rng.chance(1, 4) {
        return gen_leaf(rng, rule, nrules, comment, cfg.free_stack_leaves, cfg.wild_stack_leaves);
    }
    let k = rng.below(100);
    let sub = |rng: &mut Rng| Box::new(gen_ex(rng, rule, nrules, depth - 1, cfg, comment));
    if rng.chance(1, 30) {
        // `(!("x" | "y") ~ ANY)*` — inside atomic rules the optimizer turns this into its
        // skip-until fast path
        let n = rng.range(1, 2);
        let stops: Vec<Ex> = (0..n).map(|_| Ex::Str(gen_lit(rng, false))).collect();
        let stop = if stops.len() == 1 { stops[0].clone() } else { Ex::Choice(stops) };
        return Ex::Star(Box::new(Ex::Seq(vec![Ex::NegPred(Box::new(stop)), Ex::Builtin("ANY")])));
    }
    if k < 28 {
        let n = rng.range(2, 3);
        Ex::Seq((0..n).map(|_| *sub(rng)).collect())
    } else if k < 50 {
        let n = rng.range(2, 3);
        Ex::Choice((0..n).map(|_| *sub(rng)).collect())
    } else if k < 60 {
        Ex::Opt(sub(rng))
    } else if k < 70 {
        Ex::Star(sub(rng))
    } else if k < 76 {
        Ex::Plus(sub(rng))
    } else if k < 79 {
        Ex::RepExact(sub(rng), rng.range(1, 3) as u32)
    } else if k < 82 {
        let n = rng.range(0, 2) as u32;
        Ex::RepMinMax(sub(rng), n, n + rng.range(0, 2) as u32 + if n == 0 { 1 } else { 0 })
    } else if k < 84 {
        Ex::RepMin(sub(rng), rng.range(0, 2) as u32)
    } else if k < 86 {
        Ex::RepMax(sub(rng), rng.range(1, 3) as u32)
    } else if k < 90 {
        Ex::PosPred(sub(rng))
    } else if k < 95 {
        Ex::NegPred(sub(rng))
    } else if cfg.stack_ops {
        // the pushed expression always consumes (a literal): the validator treats stack
        // operations as progressing, so an empty PUSH inside a repetition would loop forever
        let p = Box::new(match rng.below(3) {
            0 => Ex::Range('a', 'c'),
            1 => Ex::Choice(vec![Ex::Str(gen_lit(rng, false)), Ex::Str(gen_lit(rng, false))]),
            _ => Ex::Str(gen_lit(rng, false)),
        });
        let nmid = rng.below(3);
        let mut mid: Vec<Ex> = (0..nmid)
            .map(|_| {
                if rng.chance(1, 3) {
                    gen_ex(
                        rng,
                        rule,
                        nrules,
                        1,
                        &GenCfg {
                            stack_ops: false,
                            free_stack_leaves: cfg.free_stack_leaves,
                            wild_stack_leaves: cfg.wild_stack_leaves,
                            ..GenCfg::default()
                        },
                        comment,
                    )
                } else {
                    gen_leaf(rng, rule, nrules, comment, cfg.free_stack_leaves, cfg.wild_stack_leaves)
                }
            })
            .collect();
        if rng.chance(1, 3) {
            // a second entry on the stack (the block stays net-positive)
            mid.insert(0, Ex::Push2(gen_lit(rng, false)));
        }
        // every block is stack-neutral or net-positive, so a nested block (through a rule
        // reference in `mid`) can never remove what an enclosing block pushed
        let pop = rng.chance(1, 2);
        let mut tail: Vec<&'static str> = vec![if pop { "POP" } else { "PEEK" }];
        if rng.chance(1, 3) {
            if pop {
                tail.insert(0, *rng.pick(&["PEEK_ALL", "PEEK[-1..]", "PEEK[..]", "PEEK"]));
            } else {
                tail.push(*rng.pick(&["DROP", "PEEK_ALL", "PEEK[-1..]", "PEEK[..]"]));
            }
        }
        Ex::StackBlock(p, mid, tail)
    } else {
        gen_leaf(rng, rule, nrules, comment, cfg.free_stack_leaves, cfg.wild_stack_leaves)
    }
}

pub fn gen_grammar(rng: &mut Rng, cfg: &GenCfg) -> Grammar {
    let nrules = rng.range(2, cfg.max_rules);
    let whitespace = rng.chance(1, 4);
    let comment = whitespace && rng.chance(1, 4);
    let mut rules = Vec::new();
    for i in 0..nrules {
        let depth = rng.range(1, cfg.max_depth);
        let mut body = gen_ex(rng, i, nrules, depth, cfg, comment);
        // optional guarded self reference
        if rng.chance(1, 8) {
            let guard = Ex::Str(["a", "b", "("][rng.below(3)].to_string());
            body = Ex::Choice(vec![Ex::Seq(vec![guard, Ex::Ref(i), body.clone()]), body]);
        }
        let modifier = match rng.below(12) {
            0 => "_",
            1 | 2 | 3 => "@",
            4 => "$",
            5 => "!",
            _ => "",
        };
        rules.push(RuleDef {
            name: format!("r{i}"),
            modifier,
            body,
        });
    }
    let mut g = Grammar {
        rules,
        whitespace,
        comment,
    };
    repair_for_validator(&mut g);
    g
}

// ---------------------------------------------------------------------------------------------
// keep the real validator's rejection rate low: it refuses (a) a choice alternative that cannot
// fail unless it is the last one, (b) a repetition of something that cannot fail, (c) a
// repetition of something that can succeed without consuming. These approximations of its
// analysis are only used to *steer* generation; the real front-end still has the last word.
// ---------------------------------------------------------------------------------------------

fn non_failing(e: &Ex, g: &[RuleDef], me: usize) -> bool {
    match e {
        Ex::Str(s) | Ex::Insens(s) => s.is_empty(),
        Ex::Opt(_) | Ex::Star(_) | Ex::RepMax(..) => true,
        Ex::RepMinMax(x, n, _) | Ex::RepMin(x, n) => *n == 0 || non_failing(x, g, me),
        Ex::RepExact(x, _) | Ex::Plus(x) | Ex::PosPred(x) => non_failing(x, g, me),
        Ex::Seq(xs) => xs.iter().all(|x| non_failing(x, g, me)),
        Ex::Choice(xs) => xs.iter().any(|x| non_failing(x, g, me)),
        Ex::Ref(j) => *j != me && *j < g.len() && non_failing(&g[*j].body, g, *j),
        _ => false,
    }
}

fn non_progressing(e: &Ex, g: &[RuleDef], me: usize) -> bool {
    match e {
        Ex::Str(s) | Ex::Insens(s) => s.is_empty(),
        Ex::Opt(_) | Ex::Star(_) | Ex::RepMax(..) | Ex::PosPred(_) | Ex::NegPred(_) => true,
        Ex::Builtin(b) => matches!(*b, "SOI" | "EOI"),
        Ex::RepMinMax(x, n, _) | Ex::RepMin(x, n) => *n == 0 || non_progressing(x, g, me),
        Ex::RepExact(x, _) | Ex::Plus(x) => non_progressing(x, g, me),
        Ex::Seq(xs) => xs.iter().all(|x| non_progressing(x, g, me)),
        Ex::Choice(xs) => xs.iter().any(|x| non_progressing(x, g, me)),
        Ex::Ref(j) => *j != me && *j < g.len() && non_progressing(&g[*j].body, g, *j),
        _ => false,
    }
}

fn fix(e: &mut Ex, g: &[RuleDef], me: usize) {
    // children first
    match e {
        Ex::Seq(xs) | Ex::Choice(xs) => xs.iter_mut().for_each(|x| fix(x, g, me)),
        Ex::Opt(x)
        | Ex::Star(x)
        | Ex::Plus(x)
        | Ex::RepExact(x, _)
        | Ex::RepMinMax(x, _, _)
        | Ex::RepMin(x, _)
        | Ex::RepMax(x, _)
        | Ex::PosPred(x)
        | Ex::NegPred(x) => fix(x, g, me),
        Ex::StackBlock(_, mid, _) => mid.iter_mut().for_each(|x| fix(x, g, me)),
        _ => {}
    }
    let guard = |x: &Ex| Ex::Seq(vec![x.clone(), Ex::Str("a".into())]);
    match e {
        Ex::Choice(xs) => {
            let n = xs.len();
            for x in xs.iter_mut().take(n - 1) {
                if non_failing(x, g, me) {
                    *x = guard(x);
                }
            }
        }
        Ex::Star(x)
        | Ex::Plus(x)
        | Ex::RepExact(x, _)
        | Ex::RepMinMax(x, _, _)
        | Ex::RepMin(x, _)
        | Ex::RepMax(x, _) => {
            if non_failing(x, g, me) || non_progressing(x, g, me) {
                **x = guard(x);
            }
        }
        _ => {}
    }
}

fn repair_for_validator(g: &mut Grammar) {
    // later rules first: a rule only references later rules (and itself, guarded)
    for i in (0..g.rules.len()).rev() {
        let mut body = g.rules[i].body.clone();
        fix(&mut body, &g.rules, i);
        g.rules[i].body = body;
    }
}

// ---------------------------------------------------------------------------------------------
// inputs sampled from the grammar
// ---------------------------------------------------------------------------------------------

struct Sampler<'a> {
    g: &'a Grammar,
    rng: &'a mut Rng,
    stack: Vec<String>,
    budget: usize,
}

impl Sampler<'_> {
    fn lit_char(&mut self) -> char {
        ALPHA[self.rng.below(ALPHA.len())]
    }

    fn sample(&mut self, e: &Ex, depth: usize, out: &mut String) {
        if self.budget == 0 {
            return;
        }
        self.budget -= 1;
        match e {
            Ex::Str(s) => out.push_str(s),
            Ex::Insens(s) => {
                for c in s.chars() {
                    if self.rng.chance(1, 2) {
                        out.push(c.to_ascii_uppercase());
                    } else {
                        out.push(c);
                    }
                }
            }
            Ex::Range(a, b) => {
                let lo = *a as u32;
                let hi = *b as u32;
                let c = lo + (self.rng.below((hi - lo + 1) as usize) as u32);
                out.push(char::from_u32(c).unwrap_or(*a));
            }
            Ex::Builtin(b) => match *b {
                "ANY" => {
                    let c = self.lit_char();
                    out.push(c)
                }
                "ASCII_DIGIT" => out.push((b'0' + self.rng.below(10) as u8) as char),
                "ASCII_ALPHA" | "ASCII_ALPHANUMERIC" => out.push(['a', 'b', 'c', 'Z'][self.rng.below(4)]),
                "ASCII_HEX_DIGIT" => out.push(['a', 'b', 'c', '7', 'F'][self.rng.below(5)]),
                "NEWLINE" => out.push('\n'),
                "LETTER" | "ALPHABETIC" => out.push(['a', 'é', 'х', '日'][self.rng.below(4)]),
                "ASCII" => out.push(['a', ' ', 'c'][self.rng.below(3)]),
                "PEEK_ALL" | "PEEK[..]" => {
                    // whole stack (top to bottom for PEEK_ALL); sometimes only a partial match
                    let mut parts: Vec<String> = self.stack.clone();
                    if *b == "PEEK_ALL" {
                        parts.reverse();
                    }
                    if self.rng.chance(1, 2) && parts.len() > 1 {
                        parts.truncate(1);
                        parts.push("a".into());
                    }
                    for p in parts {
                        out.push_str(&p);
                    }
                }
                "POP" => {
                    if let Some(s) = self.stack.pop() {
                        out.push_str(&s)
                    }
                }
                "PEEK" => {
                    if let Some(s) = self.stack.last() {
                        out.push_str(&s.clone())
                    }
                }
                "DROP" => {
                    self.stack.pop();
                }
                "POP_ALL" => {
                    while let Some(s) = self.stack.pop() {
                        out.push_str(&s)
                    }
                }
                "PEEK[0..1]" => {
                    if let Some(s) = self.stack.first() {
                        out.push_str(&s.clone())
                    }
                }
                "PEEK[-1..]" => {
                    if let Some(s) = self.stack.last() {
                        out.push_str(&s.clone())
                    }
                }
                _ => {}
            },
            Ex::Push2(l) => {
                out.push_str(l);
                self.stack.push(l.clone());
            }
            Ex::Ref(i) => {
                if depth > 0 {
                    let body = self.g.rules[*i].body.clone();
                    self.sample(&body, depth - 1, out);
                }
            }
            Ex::Seq(xs) => {
                for (i, x) in xs.iter().enumerate() {
                    if i > 0 && self.g.whitespace && self.rng.chance(1, 3) {
                        out.push(' ');
                    }
                    self.sample(x, depth, out);
                }
            }
            Ex::Choice(xs) => {
                let i = self.rng.below(xs.len());
                self.sample(&xs[i], depth, out);
            }
            Ex::Opt(e) => {
                if self.rng.chance(1, 2) {
                    self.sample(e, depth, out);
                }
            }
            Ex::Star(x) => {
                let n = self.rng.below(3);
                for _ in 0..n {
                    self.sample(x, depth, out);
                }
            }
            Ex::RepMin(x, lo) => {
                let n = *lo as usize + self.rng.below(3);
                for _ in 0..n {
                    self.sample(x, depth, out);
                }
            }
            Ex::Plus(e) => {
                let n = self.rng.range(1, 3);
                for _ in 0..n {
                    self.sample(e, depth, out);
                }
            }
            Ex::RepExact(e, n) => {
                for _ in 0..*n {
                    self.sample(e, depth, out);
                }
            }
            Ex::RepMinMax(e, n, m) => {
                let k = self.rng.range(*n as usize, (*m).max(*n) as usize);
                for _ in 0..k {
                    self.sample(e, depth, out);
                }
            }
            Ex::RepMax(e, m) => {
                let k = self.rng.range(0, *m as usize);
                for _ in 0..k {
                    self.sample(e, depth, out);
                }
            }
            Ex::PosPred(_) | Ex::NegPred(_) => {}
            Ex::StackBlock(p, mid, tail) => {
                let mut s = String::new();
                self.sample(p, depth, &mut s);
                out.push_str(&s);
                self.stack.push(s);
                for m in mid {
                    self.sample(m, depth, out);
                }
                for t in tail {
                    match *t {
                        "POP" => {
                            if let Some(s) = self.stack.pop() {
                                out.push_str(&s)
                            }
                        }
                        "PEEK" => {
                            if let Some(s) = self.stack.last() {
                                out.push_str(&s.clone())
                            }
                        }
                        _ => {}
                    }
                }
            }
        }
    }
}

fn truncate_chars(s: &str, max_chars: usize) -> String {
    s.chars().take(max_chars).collect()
}

/// An input for rule `start`: sampled from the grammar, possibly mutated, or uniformly random.
pub fn gen_input(rng: &mut Rng, g: &Grammar, start: usize, max_chars: usize) -> String {
    let mode = rng.below(10);
    if mode == 0 {
        let n = rng.below(max_chars.min(8) + 1);
        return (0..n).map(|_| ALPHA[rng.below(ALPHA.len())]).collect();
    }
    let mut out = String::new();
    {
        let body = g.rules[start].body.clone();
        let mut s = Sampler {
            g,
            rng,
            stack: vec![],
            budget: 200,
        };
        s.sample(&body, 6, &mut out);
    }
    let mut chars: Vec<char> = out.chars().collect();
    if mode >= 6 {
        // mutate 1..2 times
        for _ in 0..rng.range(1, 2) {
            match rng.below(3) {
                0 if !chars.is_empty() => {
                    let i = rng.below(chars.len());
                    chars.remove(i);
                }
                1 => {
                    let i = rng.below(chars.len() + 1);
                    chars.insert(i, ALPHA[rng.below(ALPHA.len())]);
                }
                _ if !chars.is_empty() => {
                    let i = rng.below(chars.len());
                    chars[i] = ALPHA[rng.below(ALPHA.len())];
                }
                _ => {}
            }
        }
    }
    let s: String = chars.into_iter().collect();
    truncate_chars(&s, max_chars)
}

// ---------------------------------------------------------------------------------------------
// structural shrinking
// ---------------------------------------------------------------------------------------------

fn shrink_ex(e: &Ex) -> Vec<Ex> {
    let mut out = Vec::new();
    // replace node by a child
    for c in e.children() {
        if !matches!(e, Ex::StackBlock(..)) {
            out.push(c.clone());
        }
    }
    match e {
        Ex::Str(s) if s.chars().count() > 1 => {
            out.push(Ex::Str(s.chars().take(1).collect()));
        }
        Ex::Insens(s) => out.push(Ex::Str(s.clone())),
        Ex::Range(a, _) => out.push(Ex::Str(a.to_string())),
        Ex::Builtin(_) => out.push(Ex::Str("a".into())),
        Ex::Push2(l) if l.chars().count() > 1 => out.push(Ex::Push2(l.chars().take(1).collect())),
        Ex::Seq(xs) | Ex::Choice(xs) if xs.len() > 2 => {
            for i in 0..xs.len() {
                let mut ys = xs.clone();
                ys.remove(i);
                out.push(if matches!(e, Ex::Seq(_)) { Ex::Seq(ys) } else { Ex::Choice(ys) });
            }
        }
        Ex::StackBlock(p, mid, tail) => {
            if !mid.is_empty() {
                out.push(Ex::StackBlock(p.clone(), vec![], tail.clone()));
            }
            if tail.len() > 1 {
                out.push(Ex::StackBlock(p.clone(), mid.clone(), vec![tail[0]]));
            }
            out.push((**p).clone());
        }
        Ex::Plus(x) | Ex::RepExact(x, _) | Ex::RepMinMax(x, _, _) | Ex::RepMin(x, _) | Ex::RepMax(x, _) => {
            out.push(Ex::Star(x.clone()));
            out.push(Ex::Opt(x.clone()));
        }
        _ => {}
    }
    // recurse: shrink one child in place
    match e {
        Ex::Seq(xs) | Ex::Choice(xs) => {
            for i in 0..xs.len() {
                for s in shrink_ex(&xs[i]) {
                    let mut ys = xs.clone();
                    ys[i] = s;
                    out.push(if matches!(e, Ex::Seq(_)) { Ex::Seq(ys) } else { Ex::Choice(ys) });
                }
            }
        }
        Ex::Opt(x) => out.extend(shrink_ex(x).into_iter().map(|s| Ex::Opt(Box::new(s)))),
        Ex::Star(x) => out.extend(shrink_ex(x).into_iter().map(|s| Ex::Star(Box::new(s)))),
        Ex::Plus(x) => out.extend(shrink_ex(x).into_iter().map(|s| Ex::Plus(Box::new(s)))),
        Ex::PosPred(x) => out.extend(shrink_ex(x).into_iter().map(|s| Ex::PosPred(Box::new(s)))),
        Ex::NegPred(x) => out.extend(shrink_ex(x).into_iter().map(|s| Ex::NegPred(Box::new(s)))),
        Ex::RepExact(x, n) => out.extend(shrink_ex(x).into_iter().map(|s| Ex::RepExact(Box::new(s), *n))),
        Ex::RepMinMax(x, n, m) => {
            out.extend(shrink_ex(x).into_iter().map(|s| Ex::RepMinMax(Box::new(s), *n, *m)))
        }
        Ex::RepMin(x, n) => out.extend(shrink_ex(x).into_iter().map(|s| Ex::RepMin(Box::new(s), *n))),
        Ex::RepMax(x, n) => out.extend(shrink_ex(x).into_iter().map(|s| Ex::RepMax(Box::new(s), *n))),
        Ex::StackBlock(p, mid, tail) => {
            out.extend(
                shrink_ex(p)
                    .into_iter()
                    .map(|s| Ex::StackBlock(Box::new(s), mid.clone(), tail.clone())),
            );
        }
        _ => {}
    }
    out
}

/// Smaller grammars derived from `g` (callers re-validate each candidate with the real front-end
/// and keep it only if the same violation class persists). `keep` lists rule indices that must
/// stay (e.g. the start rule).
pub fn shrink_grammar(g: &Grammar, keep: &[usize]) -> Vec<Grammar> {
    let mut out = Vec::new();
    if g.comment {
        let mut h = g.clone();
        h.comment = false;
        out.push(h);
    }
    if g.whitespace && !g.comment {
        let mut h = g.clone();
        h.whitespace = false;
        out.push(h);
    }
    // drop an unreferenced, non-kept rule (last first); indices above it shift down
    let mut referenced = vec![false; g.rules.len()];
    for r in &g.rules {
        let mut v = vec![];
        r.body.refs(&mut v);
        for i in v {
            referenced[i] = true;
        }
    }
    for i in (0..g.rules.len()).rev() {
        if !referenced[i] && !keep.contains(&i) && g.rules.len() > 1 {
            // only safe if no kept index is above i (keeps indices stable for the caller)
            if keep.iter().all(|k| *k < i) {
                let mut h = g.clone();
                h.rules.remove(i);
                for r in &mut h.rules {
                    shift_refs(&mut r.body, i);
                }
                out.push(h);
            }
        }
    }
    for (i, r) in g.rules.iter().enumerate() {
        if !r.modifier.is_empty() {
            let mut h = g.clone();
            h.rules[i].modifier = "";
            out.push(h);
        }
        for s in shrink_ex(&r.body) {
            let mut h = g.clone();
            h.rules[i].body = s;
            out.push(h);
        }
        // replace a reference to rule j by its body is not attempted; replace refs by literal
    }
    out
}

fn shift_refs(e: &mut Ex, removed: usize) {
    match e {
        Ex::Ref(i) => {
            if *i > removed {
                *i -= 1
            }
        }
        Ex::Seq(xs) | Ex::Choice(xs) => xs.iter_mut().for_each(|x| shift_refs(x, removed)),
        Ex::Opt(x)
        | Ex::Star(x)
        | Ex::Plus(x)
        | Ex::RepExact(x, _)
        | Ex::RepMinMax(x, _, _)
        | Ex::RepMin(x, _)
        | Ex::RepMax(x, _)
        | Ex::PosPred(x)
        | Ex::NegPred(x) => shift_refs(x, removed),
        Ex::StackBlock(p, mid, _) => {
            shift_refs(p, removed);
            mid.iter_mut().for_each(|x| shift_refs(x, removed));
        }
        _ => {}
    }
}
