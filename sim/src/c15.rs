//! C15 — detailed error tracking is observationally transparent.
//!
//! Fault-free differential (flag off vs on), the same crossed with injected refusals (call limit
//! k at sampled / enumerated points), and the configuration world of `cfgworld` in which the flag
//! is flipped by another simulated thread at scheduler-chosen instants.

use crate::c12::run_with;
use crate::cfgworld::attempts_problem;
use crate::parsework::{Core, Job, Prepared};
use crate::prng::Rng;

#[derive(Clone, Debug)]
pub struct Violation {
    pub class: String,
    pub detail: String,
    pub k: Option<usize>,
}

#[derive(Clone, Debug, Default)]
pub struct DiffStats {
    pub pairs: u64,
    pub failing_parses: u64,
    pub help_rendered: u64,
    pub refusal_points: u64,
    pub with_unexpected_tokens: u64,
    pub with_call_stacks_ge4: u64,
    pub max_pos_gt_attempt_pos: u64,
}

fn compare(p: &Prepared, k: usize, stats: &mut DiffStats) -> Option<Violation> {
    let (off, _, _) = run_with(p, k, false);
    let (on, _, _) = run_with(p, k, true);
    stats.pairs += 1;
    let kk = if k == 0 { None } else { Some(k) };
    if let Core::Panic(m) = &on.core {
        if !matches!(off.core, Core::Panic(_)) {
            return Some(Violation {
                class: "panic-with-detail".into(),
                detail: format!("parse panics only with error detail on (limit {kk:?}): {m}"),
                k: kk,
            });
        }
    }
    if on.core != off.core {
        return Some(Violation {
            class: "detail-changed-result".into(),
            detail: format!(
                "limit {kk:?}: detail off gives {}, detail on gives {}",
                off.core.short(),
                on.core.short()
            ),
            k: kk,
        });
    }
    if off.attempts.is_some() {
        return Some(Violation {
            class: "attempts-malformed".into(),
            detail: "attempt information recorded although error detail is off".into(),
            k: kk,
        });
    }
    if let Core::Err { .. } = on.core {
        stats.failing_parses += 1;
    }
    if let Some(problem) = attempts_problem(&on, Some(true)) {
        return Some(Violation {
            class: "attempts-malformed".into(),
            detail: format!("limit {kk:?}: {problem}"),
            k: kk,
        });
    }
    if let Some(a) = &on.attempts {
        if a.help.is_some() {
            stats.help_rendered += 1;
        }
        if !a.unexpected.is_empty() {
            stats.with_unexpected_tokens += 1;
        }
        if a.call_stacks >= 4 {
            stats.with_call_stacks_ge4 += 1;
        }
        if let Core::Err { location, .. } = &on.core {
            if a.max_position > location.0 {
                stats.max_pos_gt_attempt_pos += 1;
            }
        }
    }
    None
}

/// Differential over one job: no limit, then refusal points (all of 1..=N+1 when N is small,
/// a seeded sample otherwise).
pub fn differential(
    job: &Job,
    max_calls: usize,
    max_points: usize,
    rng: &mut Rng,
    stats: &mut DiffStats,
) -> Result<Option<Violation>, &'static str> {
    let p = Prepared::new(job).ok_or("grammar rejected")?;
    let (probe, calls, refused) = run_with(&p, max_calls, false);
    if refused > 0 {
        return Err("too expensive");
    }
    if let Core::Panic(_) = probe.core {
        return Err("reference panics");
    }
    if let Some(v) = compare(&p, 0, stats) {
        return Ok(Some(v));
    }
    let n = calls as usize;
    let ks: Vec<usize> = if n + 1 <= max_points {
        (1..=n + 1).collect()
    } else {
        let mut v: Vec<usize> = (0..max_points).map(|_| 1 + rng.below(n + 1)).collect();
        v.sort_unstable();
        v.dedup();
        v
    };
    for k in ks {
        stats.refusal_points += 1;
        if let Some(v) = compare(&p, k, stats) {
            return Ok(Some(v));
        }
    }
    Ok(None)
}
