//! Configuration world (surface S4): caller threads run parse jobs while a configurator thread
//! flips the process-wide switches (`set_call_limit`, `set_error_detail`) at scheduler-chosen
//! instants. Every H1 site is (or may be) a scheduling point; the history records which values
//! every parse loaded.

use crate::c12::run_with;
use crate::hook;
use crate::parsework::{Core, Job, Outcome, Prepared};
use crate::prng::Rng;
use crate::sched::SchedSpec;
use crate::world::{run_world, Ending, WorldOutcome};
use serde_json::{json, Value};
use simstd::rt::{self, EvKind, Faults};
use std::collections::BTreeMap;
use std::sync::{Arc, Mutex};

#[derive(Clone, Debug, PartialEq, Eq)]
pub enum CfgOp {
    /// 0 = no limit
    Limit(usize),
    Detail(bool),
    Stall(u32),
}

impl CfgOp {
    pub fn to_json(&self) -> Value {
        match self {
            CfgOp::Limit(v) => json!(["limit", v]),
            CfgOp::Detail(b) => json!(["detail", b]),
            CfgOp::Stall(n) => json!(["stall", n]),
        }
    }
    pub fn from_json(v: &Value) -> Option<CfgOp> {
        let a = v.as_array()?;
        Some(match a.first()?.as_str()? {
            "limit" => CfgOp::Limit(a.get(1)?.as_u64()? as usize),
            "detail" => CfgOp::Detail(a.get(1)?.as_bool()?),
            "stall" => CfgOp::Stall(a.get(1)?.as_u64()? as u32),
            _ => return None,
        })
    }
}

#[derive(Clone, Debug)]
pub struct CfgWorkload {
    pub jobs: Vec<Job>,
    /// job indices per caller thread
    pub threads: Vec<Vec<usize>>,
    pub script: Vec<CfgOp>,
    /// K3: 1-in-n counted calls is a scheduling point (0 = never)
    pub call_yield_every: u64,
}

impl CfgWorkload {
    pub fn to_json(&self) -> Value {
        json!({
            "jobs": self.jobs.iter().map(|j| j.to_json()).collect::<Vec<_>>(),
            "threads": self.threads,
            "script": self.script.iter().map(|c| c.to_json()).collect::<Vec<_>>(),
            "call_yield_every": self.call_yield_every,
        })
    }
    pub fn from_json(v: &Value) -> Option<CfgWorkload> {
        Some(CfgWorkload {
            jobs: v.get("jobs")?.as_array()?.iter().map(Job::from_json).collect::<Option<Vec<_>>>()?,
            threads: v
                .get("threads")?
                .as_array()?
                .iter()
                .map(|t| t.as_array().map(|a| a.iter().filter_map(|x| x.as_u64().map(|y| y as usize)).collect()))
                .collect::<Option<Vec<Vec<usize>>>>()?,
            script: v
                .get("script")?
                .as_array()?
                .iter()
                .map(CfgOp::from_json)
                .collect::<Option<Vec<_>>>()?,
            call_yield_every: v.get("call_yield_every")?.as_u64()?,
        })
    }
    pub fn flips_limit(&self) -> bool {
        self.script.iter().any(|c| matches!(c, CfgOp::Limit(_)))
    }
}

#[derive(Clone, Debug)]
pub struct ParseRecord {
    pub task: usize,
    pub job: usize,
    pub loaded_limit: Option<usize>,
    pub loaded_detail: Option<bool>,
    pub outcome: Outcome,
    /// a configuration store landed between this parse's begin and end
    pub store_inside: bool,
}

pub struct CfgRun {
    pub world: WorldOutcome,
    pub parses: Vec<ParseRecord>,
}

pub const MAX_STEPS: usize = 400_000;

pub fn execute(w: &CfgWorkload, spec: SchedSpec) -> Option<CfgRun> {
    let prepared: Vec<Prepared> = w.jobs.iter().map(Prepared::new).collect::<Option<Vec<_>>>()?;
    // every job must terminate within the call budget when parsed without a limit (the worlds
    // run parses with no limit; a non-terminating job — possible through the validator gaps of
    // property C06 — would loop without ever reaching a scheduling point)
    for p in &prepared {
        let (o, _calls, refused) = run_with(p, crate::worker::MAX_CALLS, false);
        if refused > 0 || matches!(o.core, Core::Panic(_)) {
            return None;
        }
    }
    let prepared = Arc::new(prepared);
    let results: Arc<Mutex<Vec<(usize, usize, Outcome)>>> = Arc::new(Mutex::new(Vec::new()));
    let w2 = Arc::new(w.clone());
    hook::install();
    hook::reset_sim(w.call_yield_every);
    pest::set_call_limit(None);
    pest::set_error_detail(false);
    hook::reset_sim(w.call_yield_every);
    let res2 = results.clone();
    let world = run_world(
        spec,
        Faults::default(),
        MAX_STEPS,
        move || {
            let mut handles = vec![];
            for list in w2.threads.iter() {
                let list = list.clone();
                let prepared = prepared.clone();
                let res = res2.clone();
                handles.push(simstd::thread::spawn(move || {
                    for j in list {
                        rt::mark(format!("job_begin {j}"));
                        let o = prepared[j].run();
                        rt::mark(format!("job_end {j}"));
                        res.lock().unwrap().push((rt::me(), j, o));
                    }
                }));
            }
            for op in w2.script.iter() {
                match op {
                    CfgOp::Limit(v) => pest::set_call_limit(std::num::NonZeroUsize::new(*v)),
                    CfgOp::Detail(b) => pest::set_error_detail(*b),
                    CfgOp::Stall(n) => {
                        for _ in 0..*n {
                            simstd::thread::yield_now();
                        }
                    }
                }
            }
            for h in handles {
                let _ = h.join();
            }
        },
    );
    hook::reset();
    pest::set_call_limit(None);
    pest::set_error_detail(false);
    // attribute loads to parses from the history
    let mut parses = vec![];
    let mut open: BTreeMap<usize, (usize, Option<usize>, Option<bool>, bool)> = BTreeMap::new();
    let mut outcomes = results.lock().unwrap().clone();
    for ev in &world.events {
        match &ev.kind {
            EvKind::Mark(m) => {
                if let Some(j) = m.strip_prefix("job_begin ") {
                    open.insert(ev.task, (j.parse().unwrap_or(0), None, None, false));
                } else if m.starts_with("job_end ") {
                    if let Some((j, l, d, s)) = open.remove(&ev.task) {
                        if let Some(pos) = outcomes.iter().position(|(t, jj, _)| *t == ev.task && *jj == j) {
                            let (_, _, o) = outcomes.remove(pos);
                            parses.push(ParseRecord {
                                task: ev.task,
                                job: j,
                                loaded_limit: l,
                                loaded_detail: d,
                                outcome: o,
                                store_inside: s,
                            });
                        }
                    }
                }
            }
            EvKind::Cfg(c) => {
                if let Some(v) = c.strip_prefix("load limit ") {
                    if let Some(e) = open.get_mut(&ev.task) {
                        if e.1.is_none() {
                            e.1 = v.parse().ok();
                        }
                    }
                } else if let Some(v) = c.strip_prefix("load detail ") {
                    if let Some(e) = open.get_mut(&ev.task) {
                        if e.2.is_none() {
                            e.2 = v.parse().ok();
                        }
                    }
                } else if c.starts_with("store ") {
                    for (_, e) in open.iter_mut() {
                        e.3 = true;
                    }
                }
            }
            _ => {}
        }
    }
    Some(CfgRun { world, parses })
}

#[derive(Clone, Debug)]
pub struct CfgViolation {
    pub class: String,
    pub detail: String,
}

#[derive(Default, Clone, Debug)]
pub struct CfgProbes {
    pub parses: u64,
    pub store_inside_parse: u64,
    pub parses_with_limit: u64,
    pub parses_with_detail: u64,
    pub limit_errors: u64,
    pub snapshot_disagreements: u64,
    pub errors_with_attempts: u64,
}

impl CfgProbes {
    pub fn add(&mut self, o: &CfgProbes) {
        self.parses += o.parses;
        self.store_inside_parse += o.store_inside_parse;
        self.parses_with_limit += o.parses_with_limit;
        self.parses_with_detail += o.parses_with_detail;
        self.limit_errors += o.limit_errors;
        self.snapshot_disagreements += o.snapshot_disagreements;
        self.errors_with_attempts += o.errors_with_attempts;
    }
    pub fn to_json(&self) -> Value {
        json!({
            "threaded_parses": self.parses,
            "store_landed_inside_a_running_parse": self.store_inside_parse,
            "parses_that_loaded_a_limit": self.parses_with_limit,
            "parses_that_loaded_detail_on": self.parses_with_detail,
            "limit_errors": self.limit_errors,
            "errors_carrying_attempts": self.errors_with_attempts,
            "disagreements_with_single_threaded_run_under_loaded_config(info)": self.snapshot_disagreements,
        })
    }
}

/// Well-formedness of the recorded attempt information (C15, second sentence).
pub fn attempts_problem(o: &Outcome, detail: Option<bool>) -> Option<String> {
    match (&o.attempts, detail) {
        (Some(a), _) => {
            if !a.within_input {
                return Some(format!("attempt position {} lies beyond the input", a.max_position));
            }
            if !a.on_char_boundary {
                return Some(format!("attempt position {} is not a UTF-8 boundary", a.max_position));
            }
            if a.help.is_none() {
                return Some("the help message could not be rendered (panic or None)".into());
            }
            None
        }
        (None, Some(true)) => {
            if matches!(o.core, Core::Err { .. }) {
                Some("error detail was on for this parse but the error carries no attempt information".into())
            } else {
                None
            }
        }
        _ => None,
    }
}

/// Property-level oracle over the parses of one configuration world.
/// `prop` is "C12" or "C15".
pub fn check(prop: &str, w: &CfgWorkload, run: &CfgRun, probes: &mut CfgProbes) -> Option<CfgViolation> {
    match run.world.ending {
        Ending::Completed => {}
        Ending::Panic => {
            return Some(CfgViolation {
                class: "panic".into(),
                detail: run.world.panic_msg.clone().unwrap_or_default(),
            })
        }
        Ending::Deadlock => {
            return Some(CfgViolation {
                class: "deadlock".into(),
                detail: "configuration world deadlocked".into(),
            })
        }
        Ending::StepBudget => {
            return Some(CfgViolation {
                class: "step-budget".into(),
                detail: "configuration world exceeded its step budget".into(),
            })
        }
    }
    let expected_parses: usize = w.threads.iter().map(|t| t.len()).sum();
    if run.parses.len() != expected_parses {
        return Some(CfgViolation {
            class: "harness".into(),
            detail: format!("{} parses recorded, {} expected", run.parses.len(), expected_parses),
        });
    }
    let prepared: Vec<Prepared> = w.jobs.iter().filter_map(Prepared::new).collect();
    let mut ref_inf: BTreeMap<usize, Outcome> = BTreeMap::new();
    let mut ref_cfg: BTreeMap<(usize, usize, bool), Outcome> = BTreeMap::new();
    let flips_limit = w.flips_limit();
    for p in &run.parses {
        probes.parses += 1;
        if p.store_inside {
            probes.store_inside_parse += 1;
        }
        if p.loaded_limit.unwrap_or(0) > 0 {
            probes.parses_with_limit += 1;
        }
        if p.loaded_detail == Some(true) {
            probes.parses_with_detail += 1;
        }
        if p.outcome.core.is_limit_error() {
            probes.limit_errors += 1;
        }
        if p.outcome.attempts.is_some() {
            probes.errors_with_attempts += 1;
        }
        if let Core::Panic(m) = &p.outcome.core {
            return Some(CfgViolation {
                class: "panic".into(),
                detail: format!("job {} panicked: {m}", p.job),
            });
        }
        let r_inf = ref_inf
            .entry(p.job)
            .or_insert_with(|| run_with(&prepared[p.job], 0, false).0)
            .clone();
        let equal = p.outcome.core == r_inf.core;
        if !equal {
            let excused = flips_limit && p.outcome.core.is_limit_error();
            if !excused {
                return Some(CfgViolation {
                    class: if flips_limit { "silent-change" } else { "detail-changed-result" }.into(),
                    detail: format!(
                        "job {} (loaded limit {:?}, detail {:?}) returned {} — the unconfigured result is {}",
                        p.job,
                        p.loaded_limit,
                        p.loaded_detail,
                        p.outcome.core.short(),
                        r_inf.core.short()
                    ),
                });
            }
        }
        if prop == "C15" {
            if let Some(problem) = attempts_problem(&p.outcome, p.loaded_detail) {
                return Some(CfgViolation {
                    class: "attempts-malformed".into(),
                    detail: format!("job {}: {problem}", p.job),
                });
            }
            if p.loaded_detail == Some(false) && p.outcome.attempts.is_some() {
                return Some(CfgViolation {
                    class: "attempts-malformed".into(),
                    detail: format!("job {}: detail was off for this parse but attempts were recorded", p.job),
                });
            }
        }
        // informational: does the parse equal the single-threaded run under the configuration
        // it loaded? (stronger than the property; counted, never a violation)
        if let (Some(l), Some(d)) = (p.loaded_limit, p.loaded_detail) {
            let e = ref_cfg
                .entry((p.job, l, d))
                .or_insert_with(|| run_with(&prepared[p.job], l, d).0);
            if *e != p.outcome {
                probes.snapshot_disagreements += 1;
            }
        }
    }
    None
}

/// Seeded generator of a configuration workload over the given jobs.
pub fn gen_workload(rng: &mut Rng, jobs: Vec<Job>, calls_hint: &[usize], with_limit: bool, with_detail: bool) -> CfgWorkload {
    let nthreads = rng.range(1, 3);
    let mut threads = vec![];
    for _ in 0..nthreads {
        let n = rng.range(1, 3);
        threads.push((0..n).map(|_| rng.below(jobs.len())).collect());
    }
    let mut script = vec![];
    let nops = rng.range(1, 6);
    for _ in 0..nops {
        let k = rng.below(10);
        if with_limit && (k < 5 || !with_detail) {
            let hint = calls_hint[rng.below(calls_hint.len())].max(1);
            let v = match rng.below(5) {
                0 => 0,
                1 => rng.range(1, 4),
                2 => hint + 1 + rng.below(3),
                _ => 1 + rng.below(hint + 1),
            };
            script.push(CfgOp::Limit(v));
        } else if with_detail {
            script.push(CfgOp::Detail(rng.chance(2, 3)));
        }
        if rng.chance(1, 2) {
            script.push(CfgOp::Stall(rng.range(1, 15) as u32));
        }
    }
    CfgWorkload {
        jobs,
        threads,
        script,
        call_yield_every: [1u64, 1, 2, 5, 0][rng.below(5)],
    }
}
