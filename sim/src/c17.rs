//! C17 — the debugger reports exactly the breakpoint hits of the parse under any timing.
//!
//! World: task 0 = controller executing a command script against the real `DebuggerContext`
//! (compiled against the `simstd` seam); the context spawns the parser threads. Oracle: a small
//! sequential model stepped over the recorded history + the engine's deadlock / budget detection.

use crate::gen::{self, Grammar};
use crate::prng::Rng;
use crate::sched::{SchedSpec, Strategy};
use crate::world::{run_world, Ending, WorldOutcome};
use pest_debugger::{DebuggerContext, DebuggerError, DebuggerEvent};
use pest_meta::optimizer::OptimizedRule;
use serde_json::{json, Value};
use simstd::rt::{self, EvKind, Event, Faults};
use simstd::sync::mpsc::{sync_channel, Receiver, TryRecvError};
use std::cell::RefCell;
use std::collections::{BTreeMap, BTreeSet};
use std::sync::Arc;

pub const DOC_GRAMMAR: &str = r#"alpha = { 'a'..'z' | 'A'..'Z' }
digit = { '0'..'9' }

ident = { !digit ~ (alpha | digit)+ }

ident_list = _{ ident ~ (" " ~ ident)* }"#;

#[derive(Clone, Debug, PartialEq, Eq)]
pub enum Cmd {
    AddBp(String),
    DelBp(String),
    AddAll,
    DelAll,
    ListBp,
    LoadInput(String),
    /// load_grammar_direct with the main (false) or the alternative (true) grammar of the workload
    LoadGrammar(bool),
    /// start (or restart) a run; `drain`: try_recv until empty first even if nothing is buffered
    Run { rule: String, cap: usize, drain: bool },
    Cont,
    /// blocking receive, skipped when it could not return (see `recv_safe`)
    Recv,
    TryRecv,
    Stall(u32),
    /// protocol-following loop: up to `max` times { recv; on Breakpoint -> cont }
    Protocol { max: u32 },
}

impl Cmd {
    pub fn to_json(&self) -> Value {
        match self {
            Cmd::AddBp(r) => json!(["add_bp", r]),
            Cmd::DelBp(r) => json!(["del_bp", r]),
            Cmd::AddAll => json!(["add_all"]),
            Cmd::DelAll => json!(["del_all"]),
            Cmd::ListBp => json!(["list_bp"]),
            Cmd::LoadInput(s) => json!(["load_input", s]),
            Cmd::LoadGrammar(alt) => json!(["load_grammar", alt]),
            Cmd::Run { rule, cap, drain } => json!(["run", rule, cap, drain]),
            Cmd::Cont => json!(["cont"]),
            Cmd::Recv => json!(["recv"]),
            Cmd::TryRecv => json!(["try_recv"]),
            Cmd::Stall(n) => json!(["stall", n]),
            Cmd::Protocol { max } => json!(["protocol", max]),
        }
    }
    pub fn from_json(v: &Value) -> Option<Cmd> {
        let a = v.as_array()?;
        let s = |i: usize| a.get(i).and_then(|x| x.as_str()).map(|x| x.to_string());
        let n = |i: usize| a.get(i).and_then(|x| x.as_u64());
        Some(match a.first()?.as_str()? {
            "add_bp" => Cmd::AddBp(s(1)?),
            "del_bp" => Cmd::DelBp(s(1)?),
            "add_all" => Cmd::AddAll,
            "del_all" => Cmd::DelAll,
            "list_bp" => Cmd::ListBp,
            "load_input" => Cmd::LoadInput(s(1)?),
            "load_grammar" => Cmd::LoadGrammar(a.get(1)?.as_bool()?),
            "run" => Cmd::Run {
                rule: s(1)?,
                cap: n(2)? as usize,
                drain: a.get(3)?.as_bool()?,
            },
            "cont" => Cmd::Cont,
            "recv" => Cmd::Recv,
            "try_recv" => Cmd::TryRecv,
            "stall" => Cmd::Stall(n(1)? as u32),
            "protocol" => Cmd::Protocol { max: n(1)? as u32 },
            _ => return None,
        })
    }
}

#[derive(Clone, Debug)]
pub struct Workload {
    pub grammar_text: String,
    /// AST of a generated grammar (None for fixed grammars); only used for shrinking
    pub grammar_ast: Option<Grammar>,
    /// a second grammar that `LoadGrammar(true)` switches to between runs
    pub alt_grammar_text: Option<String>,
    /// "generated" | "doc-comment grammar" | "json" | "toml" | "http" | "sql" (statistics only)
    pub grammar_kind: String,
    pub input: String,
    pub script: Vec<Cmd>,
    pub personality: &'static str,
    /// F4, per mille (0 in every registered configuration)
    pub spurious_permille: u32,
    pub fault_seed: u64,
}

impl Workload {
    pub fn to_json(&self) -> Value {
        json!({
            "grammar": self.grammar_text,
            "alt_grammar": self.alt_grammar_text,
            "input": self.input,
            "script": self.script.iter().map(|c| c.to_json()).collect::<Vec<_>>(),
            "personality": self.personality,
            "spurious_permille": self.spurious_permille,
            "fault_seed": self.fault_seed,
        })
    }
    pub fn from_json(v: &Value) -> Option<Workload> {
        Some(Workload {
            grammar_text: v.get("grammar")?.as_str()?.to_string(),
            grammar_ast: None,
            alt_grammar_text: v.get("alt_grammar").and_then(|x| x.as_str()).map(|x| x.to_string()),
            grammar_kind: "replay".into(),
            input: v.get("input")?.as_str()?.to_string(),
            script: v
                .get("script")?
                .as_array()?
                .iter()
                .map(Cmd::from_json)
                .collect::<Option<Vec<_>>>()?,
            personality: "replay",
            spurious_permille: v.get("spurious_permille").and_then(|x| x.as_u64()).unwrap_or(0) as u32,
            fault_seed: v.get("fault_seed").and_then(|x| x.as_u64()).unwrap_or(0),
        })
    }
}

// ---------------------------------------------------------------------------------------------
// reference parse (plain VM, recording listener, no threads)
// ---------------------------------------------------------------------------------------------

#[derive(Clone, Debug)]
pub struct RunRef {
    /// every rule entry (rule, position) of the parse, in order — computed by the independent
    /// reference interpreter (`refinterp`), not by the VM's listener
    pub entries: Vec<(String, usize)>,
    /// Debug rendering of the final event a correct debugger must deliver
    pub final_payload: String,
    /// Some(description) when the VM's own listener reports a different entry sequence (or a
    /// different success/failure) than the reference interpreter
    pub vm_disagrees: Option<String>,
}

pub const REF_CALL_LIMIT: usize = 40_000;

thread_local! {
    /// harness-side cache of optimised rules for the handful of FIXED grammar texts (the sample
    /// grammars are large; the code under test still parses them itself inside every world)
    static OPT_CACHE: RefCell<BTreeMap<u64, Option<Arc<Vec<OptimizedRule>>>>> = const { RefCell::new(BTreeMap::new()) };
}

/// `parse_and_optimize` for harness purposes, cached for long (fixed) grammar texts.
pub fn optimized(text: &str) -> Option<Arc<Vec<OptimizedRule>>> {
    if text.len() < 600 {
        return pest_meta::parse_and_optimize(text).ok().map(|(_, r)| Arc::new(r));
    }
    let key = crate::prng::fnv1a(text.as_bytes());
    OPT_CACHE.with(|c| {
        c.borrow_mut()
            .entry(key)
            .or_insert_with(|| pest_meta::parse_and_optimize(text).ok().map(|(_, r)| Arc::new(r)))
            .clone()
    })
}

/// Runs the plain VM with a listener that records every rule entry and never aborts.
/// Returns None when the parse needs more than REF_CALL_LIMIT calls (workload is discarded).
pub fn reference_run(rules: &[OptimizedRule], rule: &str, input: &str) -> Option<RunRef> {
    // a grammar whose plain parse panics (POP / PEEK on an empty stack — documented) is discarded
    let r = std::panic::catch_unwind(std::panic::AssertUnwindSafe(|| reference_run_inner(rules, rule, input)));
    pest::set_call_limit(None);
    r.ok().flatten()
}

fn reference_run_inner(rules: &[OptimizedRule], rule: &str, input: &str) -> Option<RunRef> {
    let rec: Arc<std::sync::Mutex<Vec<(String, usize)>>> = Arc::new(std::sync::Mutex::new(Vec::new()));
    let rec2 = rec.clone();
    let vm = pest_vm::Vm::new_with_listener(
        rules.to_vec(),
        Box::new(move |rule, pos| {
            rec2.lock().unwrap().push((rule, pos.pos()));
            false
        }),
    );
    // bound the cost by COUNTING calls through hook H1 (the limit's own error report is what C12
    // is about and is not relied upon here)
    crate::hook::install();
    crate::hook::reset();
    pest::set_call_limit(std::num::NonZeroUsize::new(REF_CALL_LIMIT));
    let res = vm.parse(rule, input);
    let (_, refused) = crate::hook::counts();
    if refused > 0 {
        pest::set_call_limit(None);
        return None;
    }
    let ev = match res {
        Ok(_) => DebuggerEvent::Eof,
        Err(e) => DebuggerEvent::Error(e.to_string()),
    };
    let entries = std::mem::take(&mut *rec.lock().unwrap());
    // the plain VM without a listener must give the same final outcome
    let plain = pest_vm::Vm::new(rules.to_vec());
    let ev2 = match plain.parse(rule, input) {
        Ok(_) => DebuggerEvent::Eof,
        Err(e) => DebuggerEvent::Error(e.to_string()),
    };
    pest::set_call_limit(None);
    assert_eq!(ev, ev2, "harness: recording listener changed the parse outcome");
    // independent meaning of "the entries of the parse"
    let rp = crate::refinterp::reference_parse(rules, rule, input, 4 * REF_CALL_LIMIT as u64 + 10_000)?;
    let mut vm_disagrees = None;
    if rp.success != matches!(ev, DebuggerEvent::Eof) {
        vm_disagrees = Some(format!(
            "reference interpreter says the parse {} but the VM reports {ev:?}",
            if rp.success { "succeeds" } else { "fails" }
        ));
    } else if rp.entries != entries {
        let i = rp
            .entries
            .iter()
            .zip(entries.iter())
            .position(|(a, b)| a != b)
            .unwrap_or(rp.entries.len().min(entries.len()));
        vm_disagrees = Some(format!(
            "rule entry #{i}: reference interpreter {:?}, VM listener {:?} ({} vs {} entries)",
            rp.entries.get(i),
            entries.get(i),
            rp.entries.len(),
            entries.len()
        ));
    }
    Some(RunRef {
        entries: rp.entries,
        final_payload: format!("{ev:?}"),
        vm_disagrees,
    })
}

/// References for every `Run` command of the script, in order. None if the grammar does not
/// load or a reference parse is too expensive.
pub fn references(w: &Workload) -> Option<Vec<RunRef>> {
    let main_rules = optimized(&w.grammar_text)?;
    let alt_rules = match &w.alt_grammar_text {
        Some(t) => Some(optimized(t)?),
        None => None,
    };
    let mut rules: &Vec<OptimizedRule> = &main_rules;
    let mut input = w.input.clone();
    let mut out = vec![];
    for c in &w.script {
        match c {
            Cmd::LoadInput(s) => input = s.clone(),
            Cmd::LoadGrammar(alt) => {
                rules = if *alt { alt_rules.as_deref()? } else { &main_rules };
            }
            Cmd::Run { rule, .. } => {
                // an undefined start rule makes the VM panic ("undefined rule"): not generated
                if !rules.iter().any(|r| r.name == *rule) && !gen::BUILTINS.contains(&rule.as_str()) {
                    return None;
                }
                out.push(reference_run(rules, rule, &input)?)
            }
            _ => {}
        }
    }
    Some(out)
}

// ---------------------------------------------------------------------------------------------
// controller (runs as task 0 inside the world)
// ---------------------------------------------------------------------------------------------

thread_local! {
    /// receivers are parked here so that no parser thread ever sees a closed channel; the harness
    /// empties it after the world (outside the simulation, where drops are silent)
    static GRAVEYARD: RefCell<Vec<Receiver<DebuggerEvent>>> = const { RefCell::new(Vec::new()) };
}

fn latest_parser_task() -> Option<usize> {
    rt::with(|w| w.tasks.keys().next_back().copied())
}

/// Can the parser thread still deliver something without the controller's help? Not if it has
/// finished or sits in `park` with no token. (Workload decision only — never an oracle input. It
/// deliberately does not count parks per breakpoint, so it stays valid for an implementation that
/// parks in a loop.)
fn parser_can_move() -> bool {
    match latest_parser_task() {
        None => false,
        Some(t) => !rt::task_finished(t) && !rt::task_parked_without_token(t),
    }
}

fn is_final(ev: &DebuggerEvent) -> bool {
    !matches!(ev, DebuggerEvent::Breakpoint(..))
}

fn err_name(e: &DebuggerError) -> String {
    match e {
        DebuggerError::EofReached => "eof".into(),
        DebuggerError::RunRuleFirst => "norun".into(),
        DebuggerError::PreviousRunPanic(m) => format!("prev_panic:{m}"),
        other => format!("err:{other}"),
    }
}

struct Ctl {
    main: String,
    alt: Option<String>,
    ctx: DebuggerContext,
    rx: Option<Receiver<DebuggerEvent>>,
    final_seen: bool,
    run_ok: bool,
    runs: u32,
}

impl Ctl {
    fn on_event(&mut self, ev: &DebuggerEvent) {
        if is_final(ev) {
            self.final_seen = true;
        }
    }

    fn cont(&mut self) -> bool {
        rt::mark("cont_call");
        let r = self.ctx.cont();
        match &r {
            Ok(()) => rt::mark("cont_ret ok"),
            Err(e) => rt::mark(format!("cont_ret {}", err_name(e))),
        }
        r.is_ok()
    }

    fn try_recv(&mut self) -> Option<DebuggerEvent> {
        let r = match &self.rx {
            Some(rx) => rx.try_recv(),
            None => return None,
        };
        match r {
            Ok(ev) => {
                self.on_event(&ev);
                Some(ev)
            }
            Err(TryRecvError::Empty) | Err(TryRecvError::Disconnected) => None,
        }
    }

    /// A receive that waits as long as an event can still arrive and gives up otherwise (the
    /// script may ask for an event the protocol does not owe it — that must not deadlock the
    /// controller itself). It polls with `try_recv` and gives way to the other threads in between.
    fn recv_guarded(&mut self) -> Option<DebuggerEvent> {
        if self.final_seen || !self.run_ok || self.rx.is_none() {
            rt::mark("recv_skipped final");
            return None;
        }
        loop {
            match self.rx.as_ref().unwrap().try_recv() {
                Ok(ev) => {
                    self.on_event(&ev);
                    return Some(ev);
                }
                Err(TryRecvError::Disconnected) => return None,
                Err(TryRecvError::Empty) => {}
            }
            if !parser_can_move() {
                rt::mark("recv_gave_up");
                return None;
            }
            simstd::thread::sleep(std::time::Duration::from_millis(1));
        }
    }

    fn exec(&mut self, c: &Cmd) {
        match c {
            Cmd::AddBp(r) => {
                rt::mark(format!("bp add {r}"));
                self.ctx.add_breakpoint(r.clone());
                rt::mark("bp done");
            }
            Cmd::DelBp(r) => {
                rt::mark(format!("bp del {r}"));
                self.ctx.delete_breakpoint(r);
                rt::mark("bp done");
            }
            Cmd::AddAll => {
                rt::mark("bp addall");
                self.ctx.add_all_rules_breakpoints().expect("grammar is loaded");
                rt::mark("bp done");
            }
            Cmd::DelAll => {
                rt::mark("bp delall");
                self.ctx.delete_all_breakpoints();
                rt::mark("bp done");
            }
            Cmd::ListBp => {
                rt::mark("bp list");
                let l = self.ctx.list_breakpoints();
                rt::mark(format!("bp listed {}", l.join(",")));
            }
            Cmd::LoadInput(s) => {
                rt::mark("load_input");
                self.ctx.load_input_direct(s.clone());
            }
            Cmd::LoadGrammar(alt) => {
                let text = if *alt { self.alt.clone() } else { Some(self.main.clone()) };
                if let Some(t) = text {
                    rt::mark(format!("load_grammar {}", if *alt { "alt" } else { "main" }));
                    self.ctx
                        .load_grammar_direct("g", &t)
                        .expect("harness: grammar was validated before the world started");
                }
            }
            Cmd::Run { rule, cap, drain } => {
                // the property's precondition: every delivered event has been received
                let buffered = self.rx.as_ref().map(|r| r.sim_buffered()).unwrap_or(0);
                if self.rx.is_some() && (*drain || buffered > 0) {
                    while self.try_recv().is_some() {}
                }
                let (tx, rx) = sync_channel::<DebuggerEvent>(*cap);
                self.runs += 1;
                rt::mark(format!("run_invoke r={} chan={} rule={}", self.runs, rx.sim_chan(), rule));
                let r = self.ctx.run(rule, tx);
                match &r {
                    Ok(()) => rt::mark("run_return ok"),
                    Err(e) => rt::mark(format!("run_return {}", err_name(e))),
                }
                if let Some(old) = self.rx.replace(rx) {
                    GRAVEYARD.with(|g| g.borrow_mut().push(old));
                }
                self.final_seen = false;
                self.run_ok = r.is_ok();
            }
            Cmd::Cont => {
                self.cont();
            }
            Cmd::Recv => {
                self.recv_guarded();
            }
            Cmd::TryRecv => {
                self.try_recv();
            }
            Cmd::Stall(n) => {
                for _ in 0..*n {
                    simstd::thread::yield_now();
                }
            }
            Cmd::Protocol { max } => {
                for _ in 0..*max {
                    if self.final_seen || !self.run_ok || self.rx.is_none() {
                        break;
                    }
                    match self.recv_guarded() {
                        Some(ev) => {
                            if !is_final(&ev) {
                                self.cont();
                            }
                        }
                        None => {
                            // parser is waiting for a continue we never gave
                            if !self.cont() {
                                break;
                            }
                        }
                    }
                }
            }
        }
    }

    /// Drive the live run to its end, protocol-style, with UNGUARDED blocking receives: on a
    /// correct debugger this always terminates; a lost wake-up shows up as a deadlock.
    fn epilogue(&mut self) {
        if self.rx.is_none() || !self.run_ok {
            return;
        }
        rt::mark("epilogue");
        while let Some(ev) = self.try_recv() {
            let _ = ev;
        }
        if self.final_seen {
            return;
        }
        self.cont();
        loop {
            let ev = match self.rx.as_ref().unwrap().recv() {
                Ok(ev) => ev,
                Err(_) => {
                    rt::mark("epilogue_disconnected");
                    return;
                }
            };
            self.on_event(&ev);
            if self.final_seen {
                rt::mark("epilogue_done");
                return;
            }
            self.cont();
        }
    }
}

pub fn controller(w: &Workload) {
    let mut ctl = Ctl {
        main: w.grammar_text.clone(),
        alt: w.alt_grammar_text.clone(),
        ctx: DebuggerContext::default(),
        rx: None,
        final_seen: false,
        run_ok: false,
        runs: 0,
    };
    ctl.ctx
        .load_grammar_direct("g", &w.grammar_text)
        .expect("harness: grammar was validated before the world started");
    ctl.ctx.load_input_direct(w.input.clone());
    for c in &w.script {
        ctl.exec(c);
    }
    ctl.epilogue();
    if let Some(rx) = ctl.rx.take() {
        GRAVEYARD.with(|g| g.borrow_mut().push(rx));
    }
    // ctl.ctx (and the JoinHandle of the last parser thread) is dropped here: detached, as in
    // a real client that lets the context go out of scope.
}

pub const MAX_STEPS: usize = 600_000;

pub fn execute(w: &Workload, spec: SchedSpec) -> WorldOutcome {
    let w2 = Arc::new(w.clone());
    let out = run_world(
        spec,
        Faults {
            spurious_wake_permille: w.spurious_permille,
            seed: w.fault_seed,
        },
        MAX_STEPS,
        move || controller(&w2),
    );
    GRAVEYARD.with(|g| g.borrow_mut().clear());
    out
}

// ---------------------------------------------------------------------------------------------
// oracle: sequential reference model over the recorded history
// ---------------------------------------------------------------------------------------------

#[derive(Clone, Debug, PartialEq, Eq)]
pub struct Violation {
    /// violation class (stable across minimisation)
    pub class: String,
    /// finer structural signature of the failing history (used to match known findings)
    pub signature: String,
    pub detail: String,
    pub at_seq: Option<u64>,
}

#[derive(Default, Debug, Clone)]
pub struct Probes {
    pub runs: u64,
    pub restarts: u64,
    pub restart_parked: u64,
    pub restart_running: u64,
    pub restart_finished: u64,
    pub stale_events_after_restart: u64,
    pub bp_events: u64,
    pub finals: u64,
    pub cont_ok: u64,
    pub cont_eof: u64,
    pub cont_no_breakpoint_pending: u64,
    pub coalesced_tokens: u64,
    pub token_before_park: u64,
    pub bp_mutation_during_run: u64,
    pub send_waited: u64,
    pub aborted_listener_calls: u64,
    pub precondition_void: u64,
    pub spurious_wakes: u64,
    pub listener_calls: u64,
    pub cont_result_mismatch: u64,
    pub stop_flag_seen_without_restart: u64,
    pub old_thread_alive_at_run_return: u64,
}

impl Probes {
    pub fn add(&mut self, o: &Probes) {
        self.runs += o.runs;
        self.restarts += o.restarts;
        self.restart_parked += o.restart_parked;
        self.restart_running += o.restart_running;
        self.restart_finished += o.restart_finished;
        self.stale_events_after_restart += o.stale_events_after_restart;
        self.bp_events += o.bp_events;
        self.finals += o.finals;
        self.cont_ok += o.cont_ok;
        self.cont_eof += o.cont_eof;
        self.cont_no_breakpoint_pending += o.cont_no_breakpoint_pending;
        self.coalesced_tokens += o.coalesced_tokens;
        self.token_before_park += o.token_before_park;
        self.bp_mutation_during_run += o.bp_mutation_during_run;
        self.send_waited += o.send_waited;
        self.aborted_listener_calls += o.aborted_listener_calls;
        self.precondition_void += o.precondition_void;
        self.spurious_wakes += o.spurious_wakes;
        self.listener_calls += o.listener_calls;
        self.cont_result_mismatch += o.cont_result_mismatch;
        self.stop_flag_seen_without_restart += o.stop_flag_seen_without_restart;
        self.old_thread_alive_at_run_return += o.old_thread_alive_at_run_return;
    }
    pub fn to_json(&self) -> Value {
        json!({
            "runs": self.runs, "restarts": self.restarts,
            "restart_while_parked": self.restart_parked,
            "restart_while_running": self.restart_running,
            "restart_after_finish": self.restart_finished,
            "stale_events_after_restart": self.stale_events_after_restart,
            "breakpoint_events": self.bp_events, "final_events": self.finals,
            "cont_ok": self.cont_ok, "cont_eof": self.cont_eof,
            "cont_with_no_breakpoint_pending": self.cont_no_breakpoint_pending,
            "coalesced_unpark_tokens": self.coalesced_tokens,
            "park_found_token_already_set": self.token_before_park,
            "breakpoint_mutation_during_run": self.bp_mutation_during_run,
            "send_blocked_on_full_channel": self.send_waited,
            "listener_calls_after_abort": self.aborted_listener_calls,
            "listener_calls": self.listener_calls,
            "precondition_void": self.precondition_void,
            "spurious_wakes_fired": self.spurious_wakes,
            "cont_return_value_differs_from_model(info)": self.cont_result_mismatch,
            "stop_flag_seen_set_without_restart(info)": self.stop_flag_seen_without_restart,
            "previous_parser_thread_still_alive_when_run_returned(info)": self.old_thread_alive_at_run_return,
        })
    }
}

#[derive(Debug, Clone, PartialEq, Eq)]
enum PState {
    Running,
    Parked,
    Finished,
}

struct RunModel {
    chan: u32,
    task: Option<usize>,
    reference: RunRef,
    /// possible indices of the next rule entry the parser thread will examine (a set, because
    /// identical (rule, position) entries and breakpoint mutations racing the parse can make the
    /// correspondence between delivered events and entries ambiguous)
    positions: BTreeSet<usize>,
    /// history sequence number of the last delivered event of this run (start of the window in
    /// which the entries up to the next delivered event were examined)
    win_start: u64,
    bp_sends: u64,
    unparks: u64,
    /// cont() calls begun while this run was the live one (a continue may take effect at any
    /// instant of the call — the model does not assume it is the unpark)
    conts_started: u64,
    final_sent: bool,
    superseded: bool,
    exited: bool,
    sent_total: u64,
    recvd_total: u64,
    pstate: PState,
    token: bool,
    loads_true: u64,
    last_park_had_token: bool,
    cap: usize,
}

struct BState {
    set: BTreeSet<String>,
    earliest: u64,
    latest: u64,
}

/// May `rule` have been inside (`inside = true`) / outside (`false`) the breakpoint set at some
/// instant of the window [w0, w1]?
fn possibly(states: &[BState], rule: &str, inside: bool, w0: u64, w1: u64) -> bool {
    states
        .iter()
        .any(|b| b.earliest <= w1 && b.latest >= w0 && b.set.contains(rule) == inside)
}

fn viol(class: &str, detail: String, seq: Option<u64>) -> Violation {
    Violation {
        class: class.to_string(),
        signature: String::new(),
        detail,
        at_seq: seq,
    }
}

/// Steps the reference model over the history. `strict_pacing` is false only in the unregistered
/// spurious-wake configuration.
pub fn check_history(
    w: &Workload,
    refs: &[RunRef],
    out: &WorldOutcome,
    probes: &mut Probes,
) -> Option<Violation> {
    let strict_pacing = w.spurious_permille == 0;
    let caps: Vec<usize> = w
        .script
        .iter()
        .filter_map(|c| if let Cmd::Run { cap, .. } = c { Some(*cap) } else { None })
        .collect();
    let rule_names = |t: &str| -> Vec<String> {
        match optimized(t) {
            Some(rules) => rules.iter().map(|r| r.name.clone()).collect(),
            None => vec![],
        }
    };
    let main_rules: Vec<String> = rule_names(&w.grammar_text);
    let alt_rules: Vec<String> = w.alt_grammar_text.as_deref().map(rule_names).unwrap_or_default();
    let mut all_rules: Vec<String> = main_rules.clone();
    // Breakpoint-set history as the CONTROLLER sees it: state i may have been in force at any
    // time from the beginning of the call that created it to the end of the call that replaced
    // it. The model does not look at how (or how often) the implementation locks the set.
    let mut bstates: Vec<BState> = vec![BState {
        set: BTreeSet::new(),
        earliest: 0,
        latest: u64::MAX,
    }];
    let mut runs: Vec<RunModel> = vec![];
    let mut by_task: BTreeMap<usize, usize> = BTreeMap::new();
    let mut by_chan: BTreeMap<u32, usize> = BTreeMap::new();
    let mut in_run_call = false;
    // the stop flag is the atomic the controller touches first inside run(); other atomics a
    // refactoring might add are scheduling points but are not interpreted by the model
    let mut stop_flag: Option<u32> = None;
    let mut precondition_ok = true;
    let mut cont_pending_load: Option<bool> = None;
    let mut in_cont = false;
    let mut first: Option<Violation> = None;
    let mut epilogue_done = false;
    let mut epilogue_started = false;
    let mut last_run_ok = false;
    probes.spurious_wakes += out.spurious_fired;

    macro_rules! flag {
        ($v:expr) => {
            if first.is_none() {
                first = Some($v);
            }
        };
    }

    for ev in &out.events {
        let seq = Some(ev.seq);
        if ev.task == 0 {
            // ------------------------------------------------------------ controller events
            match &ev.kind {
                EvKind::Mark(m) => {
                    if let Some(rest) = m.strip_prefix("bp ") {
                        if rest == "done" {
                            // the previous state can no longer be observed after this point
                            let n = bstates.len();
                            if n >= 2 && bstates[n - 2].latest == u64::MAX {
                                bstates[n - 2].latest = ev.seq;
                            }
                        } else if !rest.starts_with("list") {
                            let mut parts = rest.splitn(2, ' ');
                            let op = parts.next().unwrap_or("");
                            let arg = parts.next().unwrap_or("").to_string();
                            let mut set = bstates.last().unwrap().set.clone();
                            match op {
                                "add" => {
                                    set.insert(arg);
                                }
                                "del" => {
                                    set.remove(&arg);
                                }
                                "addall" => {
                                    for r in &all_rules {
                                        set.insert(r.clone());
                                    }
                                }
                                "delall" => set.clear(),
                                _ => {}
                            }
                            bstates.push(BState {
                                set,
                                earliest: ev.seq,
                                latest: u64::MAX,
                            });
                            if let Some(r) = runs.last() {
                                if r.task.is_some() && !r.exited {
                                    probes.bp_mutation_during_run += 1;
                                }
                            }
                        }
                    } else if m.starts_with("run_invoke") {
                        let chan: u32 = m
                            .split_whitespace()
                            .find_map(|t| t.strip_prefix("chan="))
                            .and_then(|x| x.parse().ok())
                            .unwrap_or(u32::MAX);
                        let idx = runs.len();
                        if idx >= refs.len() {
                            return Some(viol("harness", "more runs than references".into(), seq));
                        }
                        precondition_ok = true;
                        if let Some(d) = &refs[idx].vm_disagrees {
                            flag!(viol(
                                "sequence-mismatch",
                                format!("the rule entries reported to the listener are not the entries of the parse: {d}"),
                                seq
                            ));
                        }
                        if let Some(prev) = runs.last_mut() {
                            // from the moment run() is invoked the previous run is being
                            // superseded: what it still delivers is unconstrained in content
                            // (the model does not look for the implementation's stop signal)
                            prev.superseded = true;
                        }
                        if let Some(prev) = runs.last() {
                            probes.restarts += 1;
                            if prev.sent_total != prev.recvd_total {
                                precondition_ok = false;
                                probes.precondition_void += 1;
                            }
                            match prev.pstate {
                                PState::Parked => probes.restart_parked += 1,
                                PState::Running => probes.restart_running += 1,
                                PState::Finished => probes.restart_finished += 1,
                            }
                        }
                        probes.runs += 1;
                        in_run_call = true;
                        by_chan.insert(chan, idx);
                        runs.push(RunModel {
                            chan,
                            task: None,
                            reference: refs[idx].clone(),
                            positions: BTreeSet::from([0usize]),
                            win_start: ev.seq,
                            bp_sends: 0,
                            unparks: 0,
                            conts_started: 0,
                            final_sent: false,
                            superseded: false,
                            exited: false,
                            sent_total: 0,
                            recvd_total: 0,
                            pstate: PState::Running,
                            token: false,
                            loads_true: 0,
                            last_park_had_token: false,
                            cap: caps.get(idx).copied().unwrap_or(1),
                        });
                    } else if let Some(res) = m.strip_prefix("run_return ") {
                        in_run_call = false;
                        last_run_ok = res == "ok";
                        let n = runs.len();
                        if n >= 2 {
                            let prev = &mut runs[n - 2];
                            prev.superseded = true;
                            if precondition_ok {
                                if res != "ok" {
                                    flag!(viol(
                                        "restart-failed",
                                        format!("run() returned {res} although every delivered event had been received"),
                                        seq
                                    ));
                                }
                                if prev.task.is_some() && !prev.exited {
                                    // informational: the property asks that the previous run is
                                    // terminated, not that it is gone before run() returns; a
                                    // thread that never ends is caught as deadlock / step budget
                                    probes.old_thread_alive_at_run_return += 1;
                                }
                            }
                        } else if res != "ok" {
                            flag!(viol("run-failed", format!("first run() returned {res}"), seq));
                        }
                    } else if let Some(which) = m.strip_prefix("load_grammar ") {
                        all_rules = if which == "alt" { alt_rules.clone() } else { main_rules.clone() };
                    } else if m == "cont_call" {
                        in_cont = true;
                        cont_pending_load = None;
                        if let Some(r) = runs.last_mut() {
                            r.conts_started += 1;
                        }
                    } else if let Some(res) = m.strip_prefix("cont_ret ") {
                        in_cont = false;
                        let expected = match (runs.is_empty(), cont_pending_load) {
                            (_, Some(true)) => "eof",
                            (true, _) => "norun",
                            (false, _) => "ok",
                        };
                        // a failed run() leaves no handle: cont reports norun/ok per handle state;
                        // only check the cases the model knows exactly
                        // cont()'s return value is not part of the property: a mismatch with
                        // the model is counted as information, never raised
                        if (last_run_ok || runs.is_empty()) && res != expected {
                            probes.cont_result_mismatch += 1;
                        }
                        match res {
                            "ok" => probes.cont_ok += 1,
                            "eof" => probes.cont_eof += 1,
                            _ => {}
                        }
                    } else if m == "epilogue" {
                        epilogue_started = true;
                    } else if m == "epilogue_done" {
                        epilogue_done = true;
                    }
                }
                EvKind::Load { val, obj } => {
                    if in_run_call && stop_flag.is_none() {
                        stop_flag = Some(*obj);
                    }
                    if in_cont && stop_flag == Some(*obj) {
                        cont_pending_load = Some(*val);
                    }
                }
                EvKind::Store { obj, .. } => {
                    if in_run_call && stop_flag.is_none() {
                        stop_flag = Some(*obj);
                    }
                    // inside run(): the restart's `is_done = true` supersedes the previous run
                    if in_run_call && stop_flag == Some(*obj) {
                        let n = runs.len();
                        if n >= 2 {
                            runs[n - 2].superseded = true;
                        }
                    }
                }
                EvKind::Spawn { child } => {
                    if in_run_call {
                        let idx = runs.len() - 1;
                        runs[idx].task = Some(*child);
                        by_task.insert(*child, idx);
                        // a restart that found is_done already true supersedes here at the latest
                        if idx >= 1 {
                            runs[idx - 1].superseded = true;
                        }
                    }
                }
                EvKind::Unpark { target, .. } => {
                    if let Some(idx) = by_task.get(target) {
                        let r = &mut runs[*idx];
                        r.unparks += 1;
                        if in_cont {
                            if r.pstate != PState::Parked {
                                probes.cont_no_breakpoint_pending += 1;
                            }
                        }
                        if r.pstate == PState::Parked {
                            r.pstate = PState::Running;
                        } else if r.token {
                            probes.coalesced_tokens += 1;
                        } else {
                            r.token = true;
                        }
                    }
                }
                EvKind::Recv { chan, .. } => {
                    if let Some(idx) = by_chan.get(chan) {
                        runs[*idx].recvd_total += 1;
                    }
                }
                _ => {}
            }
            continue;
        }
        // ---------------------------------------------------------------- parser-thread events
        let idx = match by_task.get(&ev.task) {
            Some(i) => *i,
            None => {
                // the Spawn event is logged by the parent right after the engine created the
                // task; the child cannot run before the parent's next scheduling point, so an
                // unknown task is a harness error
                return Some(viol(
                    "harness",
                    format!("event of unknown task t{}: {:?}", ev.task, ev.kind),
                    seq,
                ));
            }
        };
        let r = &mut runs[idx];
        match &ev.kind {
            EvKind::Load { val, obj } => {
                if *val && stop_flag == Some(*obj) {
                    r.loads_true += 1;
                    probes.aborted_listener_calls += 1;
                    if !r.superseded && !r.final_sent {
                        // informational only: the consequence (missing / wrong events) is what
                        // the sequence check judges
                        probes.stop_flag_seen_without_restart += 1;
                    }
                }
            }
            EvKind::Lock { .. } => {
                probes.listener_calls += 1;
            }
            EvKind::Send { chan, payload, waited } => {
                r.sent_total += 1;
                r.pstate = PState::Running;
                if *waited {
                    probes.send_waited += 1;
                }
                if r.superseded {
                    probes.stale_events_after_restart += 1;
                    continue;
                }
                if *chan != r.chan {
                    flag!(viol("sequence-mismatch", "event sent on a foreign channel".into(), seq));
                }
                let entries = &r.reference.entries;
                let (w0, w1) = (r.win_start, ev.seq);
                if payload.starts_with("Breakpoint(") {
                    probes.bp_events += 1;
                    // which entries can this event be? from every possible position p: an entry
                    // j >= p that renders as this payload, whose rule may have been in the set
                    // during the window, with every entry in p..j possibly not in the set
                    let mut next: BTreeSet<usize> = BTreeSet::new();
                    let mut why = String::new();
                    for p in r.positions.iter().copied() {
                        for j in p..entries.len() {
                            let (rule, pos) = &entries[j];
                            if format!("{:?}", DebuggerEvent::Breakpoint(rule.clone(), *pos)) == *payload
                                && possibly(&bstates, rule, true, w0, w1)
                            {
                                next.insert(j + 1);
                            }
                            if !possibly(&bstates, rule, false, w0, w1) {
                                // entry j is certainly a hit: nothing beyond it can be delivered
                                // before it
                                if why.is_empty() {
                                    why = format!(
                                        "the earlier breakpoint hit {:?} has not been delivered",
                                        DebuggerEvent::Breakpoint(rule.clone(), *pos)
                                    );
                                }
                                break;
                            }
                        }
                    }
                    if next.is_empty() {
                        if why.is_empty() {
                            why = "the parse has no such breakpoint hit ahead".into();
                        }
                        flag!(viol("sequence-mismatch", format!("delivered {payload}: {why}"), seq));
                    } else {
                        r.positions = next;
                    }
                    r.win_start = ev.seq;
                    r.bp_sends += 1;
                    if strict_pacing && r.bp_sends > 1 + r.conts_started {
                        flag!(viol(
                            "pacing",
                            format!(
                                "{} breakpoint events delivered after only {} continues",
                                r.bp_sends, r.conts_started
                            ),
                            seq
                        ));
                    }
                } else {
                    probes.finals += 1;
                    if r.final_sent {
                        flag!(viol("sequence-mismatch", "second final event".into(), seq));
                    }
                    r.final_sent = true;
                    // every remaining entry must possibly be outside the set
                    let mut ok = false;
                    let mut missed = String::new();
                    for p in r.positions.iter().copied() {
                        let mut all_out = true;
                        for (rule, pos) in entries.iter().skip(p) {
                            if !possibly(&bstates, rule, false, w0, w1) {
                                all_out = false;
                                if missed.is_empty() {
                                    missed = format!("{:?}", DebuggerEvent::Breakpoint(rule.clone(), *pos));
                                }
                                break;
                            }
                        }
                        if all_out {
                            ok = true;
                            break;
                        }
                    }
                    if !ok {
                        flag!(viol(
                            "sequence-mismatch",
                            format!("final event {payload} delivered but breakpoint hit {missed} was skipped"),
                            seq
                        ));
                    }
                    if *payload != r.reference.final_payload {
                        flag!(viol(
                            "sequence-mismatch",
                            format!(
                                "final event {payload}, plain VM parse gives {}",
                                r.reference.final_payload
                            ),
                            seq
                        ));
                    }
                }
            }
            EvKind::SendErr { .. } => {
                flag!(viol("harness", "parser thread saw a closed channel".into(), seq));
            }
            EvKind::ParkBegin { token } => {
                r.last_park_had_token = *token;
                if *token {
                    probes.token_before_park += 1;
                    r.token = false;
                } else {
                    r.pstate = PState::Parked;
                }
            }
            EvKind::ParkEnd { .. } => {
                r.pstate = PState::Running;
                r.token = false;
            }
            EvKind::ThreadExit => {
                r.exited = true;
                r.pstate = PState::Finished;
                if !r.superseded && !r.final_sent {
                    flag!(viol(
                        "sequence-mismatch",
                        "parser thread ended without delivering a final event".into(),
                        seq
                    ));
                }
            }
            _ => {}
        }
    }

    if first.is_some() {
        return first;
    }

    match out.ending {
        Ending::Completed => {
            if let Some(r) = runs.last() {
                if last_run_ok && epilogue_started && !(epilogue_done || r.final_sent) {
                    return Some(viol(
                        "incomplete",
                        "world ended but the live run never delivered its final event".into(),
                        None,
                    ));
                }
                if last_run_ok && r.final_sent && r.recvd_total != r.sent_total {
                    return Some(viol(
                        "incomplete",
                        "controller finished without receiving every delivered event".into(),
                        None,
                    ));
                }
            }
            None
        }
        Ending::Panic => Some(viol(
            "panic",
            out.panic_msg.clone().unwrap_or_else(|| "panic".into()),
            None,
        )),
        Ending::Deadlock => {
            // a deadlock is excused only when the precondition of the restart clause was void
            if in_run_call && !precondition_ok {
                None
            } else {
                let mut v = viol(
                    "deadlock",
                    deadlock_detail(&runs, in_run_call),
                    out.events.last().map(|e| e.seq),
                );
                v.signature = deadlock_signature(&runs, in_run_call);
                Some(v)
            }
        }
        Ending::StepBudget => Some(viol(
            "step-budget",
            format!("no termination within {} scheduler steps", MAX_STEPS),
            None,
        )),
    }
}

/// Structural signature of a deadlock, computed from the model state at the end of the history.
fn deadlock_signature(runs: &[RunModel], in_run_call: bool) -> String {
    if !in_run_call {
        return "controller-waiting-for-event".into();
    }
    let n = runs.len();
    if n < 2 {
        return "run-join".into();
    }
    let old = &runs[n - 2];
    let buffered = old.sent_total.saturating_sub(old.recvd_total);
    if old.pstate == PState::Parked {
        return "run-join/old-parser-parked".into();
    }
    // the old parser is blocked in a send on its full channel
    if buffered as usize >= old.cap && old.loads_true == 0 && old.last_park_had_token {
        // it never saw the stop flag and ran past its last breakpoint on a continue token that
        // had been issued before that breakpoint was reported
        return "run-join/old-parser-blocked-in-send/ran-past-breakpoint-on-stale-continue-token".into();
    }
    if buffered as usize >= old.cap {
        return format!(
            "run-join/old-parser-blocked-in-send/stop-flag-reads={}",
            if old.loads_true > 0 { "some" } else { "none" }
        );
    }
    "run-join/other".into()
}

fn deadlock_detail(runs: &[RunModel], in_run_call: bool) -> String {
    let mut s = String::from("all threads blocked: ");
    if in_run_call {
        s.push_str("controller inside run() (join of the previous parser thread); ");
    } else {
        s.push_str("controller waiting for an event; ");
    }
    for (i, r) in runs.iter().enumerate() {
        if !r.exited && r.task.is_some() {
            s.push_str(&format!(
                "parser of run {} {:?} (sent {}, received {}, stop-flag reads {}); ",
                i + 1,
                r.pstate,
                r.sent_total,
                r.recvd_total,
                r.loads_true
            ));
        }
    }
    s
}

// ---------------------------------------------------------------------------------------------
// workload generation
// ---------------------------------------------------------------------------------------------

pub struct GenStats {
    pub grammars_rejected: u64,
    pub refs_too_expensive: u64,
}

/// Length of a controller stall in scheduling points: usually short, sometimes long enough for
/// a polling or retrying peer to exhaust a bounded number of attempts (slow-consumer fault).
fn stall_len(rng: &mut Rng, short_max: usize) -> u32 {
    if rng.chance(1, 6) {
        [40u32, 80, 150, 400][rng.below(4)]
    } else {
        rng.range(1, short_max) as u32
    }
}

/// small documents of a sample grammar (from the fixed corpus of the C12/C15 checks)
fn sample_docs(be: &crate::parsework::Backend) -> Vec<String> {
    thread_local! {
        static CORPUS: Vec<crate::parsework::Job> = crate::parsework::fixed_corpus().jobs;
    }
    CORPUS.with(|c| {
        c.iter()
            .filter(|j| j.backend == *be && j.input.len() <= 120)
            .map(|j| j.input.clone())
            .collect()
    })
}

/// one very long single line for the JSON grammar, valid or cut off (a kilobyte-sized error text)
fn long_json_line(rng: &mut Rng) -> String {
    let n = rng.range(700, 1100);
    let body = format!("[{}1", "1,".repeat(n));
    if rng.chance(1, 2) {
        format!("{body}]")
    } else {
        format!("{body} x")
    }
}

fn doc_input(rng: &mut Rng) -> String {
    let words = ["test", "test2", "a", "b1", "x9y", "1x", "Zq", ""];
    // occasionally a long list: positions beyond one byte, hundreds of rule entries
    let long = rng.chance(1, 40);
    let n = if long { rng.range(60, 120) } else { rng.range(1, 4) };
    let mut s = String::new();
    for i in 0..n {
        if i > 0 {
            s.push(' ');
        }
        // a long list keeps to words that are identifiers, so that the parse really walks it
        let k = if long && i + 3 < n { rng.below(5) } else { rng.below(words.len()) };
        s.push_str(words[k]);
    }
    if rng.chance(1, 8) {
        s.push('!');
    }
    s
}

/// Generate one workload from the workload stream. Returns None (and counts) when the candidate
/// grammar is rejected by the real front-end or a reference parse is too expensive.
pub fn gen_workload(rng: &mut Rng, stats: &mut GenStats) -> Option<(Workload, Vec<RunRef>)> {
    // grammar: generated (most runs), the doc-comment grammar of the debugger crate, or one of
    // the repository's sample grammars with one of its small documents
    let kind = rng.below(20);
    let mut grammar_kind = if kind < 4 { "doc-comment grammar" } else { "generated" }.to_string();
    let mut fixed_inputs: Vec<String> = vec![];
    let (text, ast, rule_names, start_candidates): (String, Option<Grammar>, Vec<String>, Vec<String>) = if kind < 4 {
        (
            DOC_GRAMMAR.to_string(),
            None,
            vec!["alpha".into(), "digit".into(), "ident".into(), "ident_list".into()],
            vec!["ident_list".into(), "ident_list".into(), "ident".into()],
        )
    } else if kind == 4 {
        let (file, top, be): (&str, &str, crate::parsework::Backend) = match rng.below(4) {
            0 => ("json", "json", crate::parsework::Backend::Json),
            1 => ("toml", "toml", crate::parsework::Backend::Toml),
            2 => ("http", "http", crate::parsework::Backend::Http),
            _ => ("sql", "Command", crate::parsework::Backend::Sql),
        };
        let text = std::fs::read_to_string(format!("/repo/grammars/src/grammars/{file}.pest")).ok()?;
        let names: Vec<String> = optimized(&text)?.iter().map(|r| r.name.clone()).collect();
        fixed_inputs = sample_docs(&be);
        if file == "json" && rng.chance(1, 16) {
            fixed_inputs = vec![long_json_line(rng)];
        }
        grammar_kind = format!("sample grammar {file}.pest");
        (text, None, names, vec![top.to_string()])
    } else {
        let g = gen::gen_grammar(
            rng,
            &gen::GenCfg {
                free_stack_leaves: false,
                ..gen::GenCfg::default()
            },
        );
        let names = g.rule_names();
        let n = g.rules.len();
        let mut starts = vec![g.rules[0].name.clone(), g.rules[0].name.clone()];
        starts.push(g.rules[rng.below(n)].name.clone());
        (g.to_pest(), Some(g), names, starts)
    };
    if std::env::var_os("TRACE").is_some() {
        eprintln!("gen: {text:?}");
    }
    let rules = match optimized(&text) {
        Some(r) => r,
        None => {
            stats.grammars_rejected += 1;
            return None;
        }
    };
    let start = start_candidates[rng.below(start_candidates.len())].clone();
    let mk_input = |rng: &mut Rng| -> String {
        match &ast {
            None if !fixed_inputs.is_empty() => fixed_inputs[rng.below(fixed_inputs.len())].clone(),
            None => doc_input(rng),
            Some(g) => {
                let si = g.rules.iter().position(|r| r.name == start).unwrap_or(0);
                gen::gen_input(rng, g, si, 16)
            }
        }
    };
    let input = mk_input(rng);
    if std::env::var_os("TRACE").is_some() {
        eprintln!("gen: input {input:?} start {start}");
    }
    let first_ref = match reference_run(&rules, &start, &input) {
        Some(r) => r,
        None => {
            stats.refs_too_expensive += 1;
            return None;
        }
    };
    // breakpoint candidates: biased towards rules the parse really enters
    let mut entered: Vec<String> = vec![];
    for (r, _) in &first_ref.entries {
        if !entered.contains(r) {
            entered.push(r.clone());
        }
    }
    let mut script: Vec<Cmd> = vec![];
    let mut bp_pool: Vec<String> = entered.clone();
    for r in &rule_names {
        if !bp_pool.contains(r) {
            bp_pool.push(r.clone());
        }
    }
    if rng.chance(1, 6) {
        bp_pool.push("ANY".into());
    }
    match rng.below(8) {
        0 => script.push(Cmd::AddAll),
        1 => {}
        _ => {
            for r in &entered {
                if rng.chance(1, 2) {
                    script.push(Cmd::AddBp(r.clone()));
                }
            }
            if rng.chance(1, 4) && !bp_pool.is_empty() {
                script.push(Cmd::AddBp(rng.pick(&bp_pool).clone()));
            }
        }
    }
    let cap = |rng: &mut Rng| -> usize { [1usize, 1, 1, 2, 3][rng.below(5)] };
    let personality: &'static str = match rng.below(10) {
        0..=2 => "P",
        3..=6 => "R",
        _ => "I",
    };
    let run_cmd = |rng: &mut Rng, rule: &str| Cmd::Run {
        rule: rule.to_string(),
        cap: cap(rng),
        drain: rng.chance(1, 2),
    };
    let random_bp_cmd = |rng: &mut Rng| -> Cmd {
        match rng.below(8) {
            0 => Cmd::AddAll,
            1 => Cmd::DelAll,
            2 => Cmd::ListBp,
            3 | 4 => Cmd::DelBp(rng.pick(&bp_pool).clone()),
            _ => Cmd::AddBp(rng.pick(&bp_pool).clone()),
        }
    };
    script.push(run_cmd(rng, &start));
    // a second grammar for LoadGrammar (restarting personalities only)
    let alt_text: Option<String> = if personality != "P" && rng.chance(1, 6) {
        let g2 = gen::gen_grammar(
            rng,
            &gen::GenCfg {
                free_stack_leaves: false,
                ..gen::GenCfg::default()
            },
        );
        let t = g2.to_pest();
        if pest_meta::parse_and_optimize(&t).is_ok() {
            Some(t)
        } else {
            None
        }
    } else {
        None
    };
    let mut cur_alt = false;
    match personality {
        "P" => {
            if rng.chance(1, 3) {
                // protocol with breakpoint mutations while parked (allowed by the protocol)
                for _ in 0..rng.range(1, 3) {
                    script.push(Cmd::Protocol { max: rng.range(1, 3) as u32 });
                    script.push(random_bp_cmd(rng));
                }
            }
            script.push(Cmd::Protocol { max: 10_000 });
        }
        _ => {
            let restarts = if rng.chance(1, 30) { rng.range(6, 12) } else { rng.range(1, 3) };
            for _ in 0..restarts {
                // some progress first
                match rng.below(6) {
                    0 => {}
                    1 => script.push(Cmd::Recv),
                    2 => {
                        script.push(Cmd::Recv);
                        script.push(Cmd::Cont);
                    }
                    3 => script.push(Cmd::Protocol { max: rng.range(1, 4) as u32 }),
                    4 => {
                        script.push(Cmd::Protocol { max: rng.range(1, 3) as u32 });
                        script.push(Cmd::Recv);
                        script.push(Cmd::Cont);
                    }
                    _ => script.push(Cmd::Stall(stall_len(rng, 30))),
                }
                if personality == "I" {
                    for _ in 0..rng.range(0, 3) {
                        let c = match rng.below(8) {
                            0 | 1 => Cmd::Cont,
                            2 => Cmd::TryRecv,
                            3 => Cmd::Recv,
                            4 => Cmd::Stall(stall_len(rng, 20)),
                            _ => random_bp_cmd(rng),
                        };
                        script.push(c);
                    }
                }
                if rng.chance(1, 3) {
                    script.push(Cmd::Stall(stall_len(rng, 12)));
                }
                if rng.chance(1, 6) {
                    script.push(Cmd::LoadInput(mk_input(rng)));
                }
                // occasionally switch to the other grammar between runs
                if alt_text.is_some() && rng.chance(1, 2) {
                    cur_alt = !cur_alt;
                    script.push(Cmd::LoadGrammar(cur_alt));
                }
                let rule = if cur_alt {
                    "r0".to_string()
                } else if rng.chance(1, 25) {
                    // a built-in as start rule
                    ["ANY", "EOI", "SOI", "ASCII_DIGIT", "NEWLINE"][rng.below(5)].to_string()
                } else if rng.chance(1, 4) {
                    start_candidates[rng.below(start_candidates.len())].clone()
                } else {
                    start.clone()
                };
                script.push(run_cmd(rng, &rule));
            }
            if personality == "I" {
                for _ in 0..rng.range(0, 4) {
                    let c = match rng.below(8) {
                        0 | 1 => Cmd::Cont,
                        2 => Cmd::TryRecv,
                        3 => Cmd::Recv,
                        4 => Cmd::Stall(stall_len(rng, 20)),
                        _ => random_bp_cmd(rng),
                    };
                    script.push(c);
                }
            }
            if rng.chance(1, 2) {
                script.push(Cmd::Protocol { max: 10_000 });
            }
        }
    }
    let w = Workload {
        grammar_text: text,
        grammar_ast: ast,
        alt_grammar_text: alt_text,
        grammar_kind,
        input,
        script,
        personality,
        spurious_permille: 0,
        fault_seed: rng.next_u64(),
    };
    let refs = match references(&w) {
        Some(r) => r,
        None => {
            stats.refs_too_expensive += 1;
            return None;
        }
    };
    Some((w, refs))
}

pub fn gen_sched(seed: u64) -> SchedSpec {
    let mut r = Rng::stream(seed, "strategy");
    SchedSpec::Seeded {
        seed,
        strategy: Strategy::pick(&mut r),
    }
}

pub fn render_history(events: &[Event]) -> Vec<String> {
    events.iter().map(|e| e.render()).collect()
}

pub fn history_hash(events: &[Event]) -> u64 {
    let mut h: u64 = 0xcbf2_9ce4_8422_2325;
    for e in events {
        let s = format!("{} {:?}|", e.task, e.kind);
        for b in s.as_bytes() {
            h ^= *b as u64;
            h = h.wrapping_mul(0x0000_0100_0000_01B3);
        }
    }
    h
}
