//! One integer decides everything: splitmix64 streams derived by label from the run seed.

#[derive(Clone, Debug)]
pub struct Rng {
    s: u64,
}

pub fn mix(mut z: u64) -> u64 {
    z = z.wrapping_add(0x9E37_79B9_7F4A_7C15);
    z = (z ^ (z >> 30)).wrapping_mul(0xBF58_476D_1CE4_E5B9);
    z = (z ^ (z >> 27)).wrapping_mul(0x94D0_49BB_1331_11EB);
    z ^ (z >> 31)
}

pub fn fnv1a(bytes: &[u8]) -> u64 {
    let mut h: u64 = 0xcbf2_9ce4_8422_2325;
    for b in bytes {
        h ^= *b as u64;
        h = h.wrapping_mul(0x0000_0100_0000_01B3);
    }
    h
}

/// run seed of run `i` of property `prop` under master seed `verif_seed`
pub fn run_seed(verif_seed: u64, prop: &str, i: u64) -> u64 {
    mix(mix(verif_seed ^ fnv1a(prop.as_bytes())) ^ mix(i.wrapping_mul(0xD6E8_FEB8_6659_FD93)))
}

impl Rng {
    pub fn new(seed: u64) -> Self {
        Rng { s: seed }
    }
    /// independent stream for `label` derived from `seed`
    pub fn stream(seed: u64, label: &str) -> Self {
        Rng {
            s: mix(seed ^ fnv1a(label.as_bytes())),
        }
    }
    pub fn next_u64(&mut self) -> u64 {
        self.s = self.s.wrapping_add(0x9E37_79B9_7F4A_7C15);
        let mut z = self.s;
        z = (z ^ (z >> 30)).wrapping_mul(0xBF58_476D_1CE4_E5B9);
        z = (z ^ (z >> 27)).wrapping_mul(0x94D0_49BB_1331_11EB);
        z ^ (z >> 31)
    }
    /// uniform in 0..n (n > 0)
    pub fn below(&mut self, n: usize) -> usize {
        debug_assert!(n > 0);
        (self.next_u64() % n as u64) as usize
    }
    /// uniform in lo..=hi
    pub fn range(&mut self, lo: usize, hi: usize) -> usize {
        lo + self.below(hi - lo + 1)
    }
    pub fn chance(&mut self, num: u32, den: u32) -> bool {
        (self.next_u64() % den as u64) < num as u64
    }
    pub fn pick<'a, T>(&mut self, xs: &'a [T]) -> &'a T {
        &xs[self.below(xs.len())]
    }
}
