//! A small, independent reference interpreter of optimised pest rules: plain recursive matching
//! over (position, stack, atomicity) with no tokens, no error tracking and — the point — no
//! listener. It yields the sequence of rule entries `(rule, position)` of a parse, which the C17
//! model uses as the meaning of "the entries of the parse" instead of trusting the VM's own
//! listener calls, and whether the parse succeeds.
//!
//! It mirrors the matching semantics of `pest_vm` (sequence/choice/repetition with implicit
//! WHITESPACE/COMMENT skipping outside atomic rules, predicates, the match stack with its
//! checkpoints, built-in rules) but shares no code with it apart from the Unicode property tables.

use pest_meta::ast::RuleType;
use pest_meta::optimizer::{OptimizedExpr, OptimizedRule};
use std::collections::HashMap;

#[derive(Clone, Copy, PartialEq, Eq, Debug)]
enum Atom {
    Non,
    Atomic,
    Compound,
}

pub struct Interp<'a> {
    rules: HashMap<&'a str, &'a OptimizedRule>,
    input: &'a str,
    pos: usize,
    stack: Vec<String>,
    atom: Atom,
    pub entries: Vec<(String, usize)>,
    has_ws: bool,
    has_comment: bool,
    /// work budget (rule entries + expression nodes); exceeded => `gave_up`
    fuel: u64,
    pub gave_up: bool,
}

#[derive(Debug, Clone)]
pub struct RefParse {
    pub entries: Vec<(String, usize)>,
    pub success: bool,
    pub end_pos: usize,
}

pub fn reference_parse(rules: &[OptimizedRule], start: &str, input: &str, fuel: u64) -> Option<RefParse> {
    let mut map = HashMap::new();
    for r in rules {
        map.insert(r.name.as_str(), r);
    }
    let mut it = Interp {
        has_ws: map.contains_key("WHITESPACE"),
        has_comment: map.contains_key("COMMENT"),
        rules: map,
        input,
        pos: 0,
        stack: vec![],
        atom: Atom::Non,
        entries: vec![],
        fuel,
        gave_up: false,
    };
    let ok = it.rule(start);
    if it.gave_up {
        return None;
    }
    Some(RefParse {
        entries: it.entries,
        success: ok,
        end_pos: it.pos,
    })
}

impl<'a> Interp<'a> {
    fn burn(&mut self) -> bool {
        if self.fuel == 0 {
            self.gave_up = true;
            return false;
        }
        self.fuel -= 1;
        true
    }

    fn rest(&self) -> &'a str {
        &self.input[self.pos..]
    }

    fn lit(&mut self, s: &str) -> bool {
        if self.rest().starts_with(s) {
            self.pos += s.len();
            true
        } else {
            false
        }
    }

    fn insens(&mut self, s: &str) -> bool {
        match self.rest().get(0..s.len()) {
            Some(sl) if sl.eq_ignore_ascii_case(s) => {
                self.pos += s.len();
                true
            }
            _ => false,
        }
    }

    fn range(&mut self, lo: char, hi: char) -> bool {
        match self.rest().chars().next() {
            Some(c) if lo <= c && c <= hi => {
                self.pos += c.len_utf8();
                true
            }
            _ => false,
        }
    }

    fn char_by(&mut self, f: impl Fn(char) -> bool) -> bool {
        match self.rest().chars().next() {
            Some(c) if f(c) => {
                self.pos += c.len_utf8();
                true
            }
            _ => false,
        }
    }

    fn with_atom(&mut self, a: Atom, f: impl FnOnce(&mut Self) -> bool) -> bool {
        let old = self.atom;
        self.atom = a;
        let r = f(self);
        self.atom = old;
        r
    }

    /// all-or-nothing grouping: position and stack are restored on failure
    fn seq(&mut self, f: impl FnOnce(&mut Self) -> bool) -> bool {
        let pos = self.pos;
        let stack = self.stack.clone();
        if f(self) {
            true
        } else {
            self.pos = pos;
            self.stack = stack;
            false
        }
    }

    fn peek_slice(&mut self, start: i32, end: Option<i32>, top_to_bottom: bool) -> bool {
        let len = self.stack.len();
        let norm = |i: i32| -> Option<usize> {
            if i > len as i32 {
                None
            } else if i >= 0 {
                Some(i as usize)
            } else if len as i32 + i >= 0 {
                Some((len as i32 + i) as usize)
            } else {
                None
            }
        };
        let s = match norm(start) {
            Some(s) => s,
            None => return false,
        };
        let e = match end {
            None => len,
            Some(e) => match norm(e) {
                Some(e) => e,
                None => return false,
            },
        };
        if e <= s {
            return true;
        }
        let mut items: Vec<String> = self.stack[s..e].to_vec();
        if top_to_bottom {
            items.reverse();
        }
        let save = self.pos;
        for it in items {
            if !self.lit(&it) {
                self.pos = save;
                return false;
            }
        }
        true
    }

    fn skip(&mut self) -> bool {
        if self.atom != Atom::Non {
            return true;
        }
        match (self.has_ws, self.has_comment) {
            (false, false) => true,
            (true, false) => {
                while self.rule("WHITESPACE") {
                    if self.gave_up {
                        return false;
                    }
                }
                !self.gave_up
            }
            (false, true) => {
                while self.rule("COMMENT") {
                    if self.gave_up {
                        return false;
                    }
                }
                !self.gave_up
            }
            (true, true) => self.seq(|s| {
                while s.rule("WHITESPACE") {
                    if s.gave_up {
                        return false;
                    }
                }
                loop {
                    let ok = s.seq(|s| {
                        if !s.rule("COMMENT") {
                            return false;
                        }
                        while s.rule("WHITESPACE") {
                            if s.gave_up {
                                return false;
                            }
                        }
                        true
                    });
                    if !ok || s.gave_up {
                        break;
                    }
                }
                !s.gave_up
            }),
        }
    }

    pub fn rule(&mut self, name: &str) -> bool {
        if !self.burn() {
            return false;
        }
        self.entries.push((name.to_string(), self.pos));
        match name {
            "ANY" => return self.char_by(|_| true),
            "EOI" => return self.pos == self.input.len(),
            "SOI" => return self.pos == 0,
            "PEEK" => {
                let top = self.stack.last().cloned().expect("reference interpreter: PEEK on empty stack");
                return self.lit(&top);
            }
            "PEEK_ALL" => return self.peek_slice(0, None, true),
            "POP" => {
                let top = self.stack.pop().expect("reference interpreter: POP on empty stack");
                return self.lit(&top);
            }
            "POP_ALL" => {
                let save = self.pos;
                while let Some(top) = self.stack.pop() {
                    if !self.lit(&top) {
                        self.pos = save;
                        return false;
                    }
                }
                return true;
            }
            "DROP" => return self.stack.pop().is_some(),
            "ASCII_DIGIT" => return self.range('0', '9'),
            "ASCII_NONZERO_DIGIT" => return self.range('1', '9'),
            "ASCII_BIN_DIGIT" => return self.range('0', '1'),
            "ASCII_OCT_DIGIT" => return self.range('0', '7'),
            "ASCII_HEX_DIGIT" => return self.range('0', '9') || self.range('a', 'f') || self.range('A', 'F'),
            "ASCII_ALPHA_LOWER" => return self.range('a', 'z'),
            "ASCII_ALPHA_UPPER" => return self.range('A', 'Z'),
            "ASCII_ALPHA" => return self.range('a', 'z') || self.range('A', 'Z'),
            "ASCII_ALPHANUMERIC" => return self.range('a', 'z') || self.range('A', 'Z') || self.range('0', '9'),
            "ASCII" => return self.range('\x00', '\x7f'),
            "NEWLINE" => return self.lit("\n") || self.lit("\r\n") || self.lit("\r"),
            _ => {}
        }
        let r = match self.rules.get(name) {
            Some(r) => *r,
            None => {
                if let Some(p) = pest::unicode::by_name(name) {
                    return self.char_by(|c| p(c));
                }
                panic!("reference interpreter: undefined rule {name}");
            }
        };
        if r.name == "WHITESPACE" || r.name == "COMMENT" {
            let a = if r.ty == RuleType::CompoundAtomic { Atom::Compound } else { Atom::Atomic };
            return self.with_atom(a, |s| s.expr(&r.expr));
        }
        match r.ty {
            RuleType::Normal | RuleType::Silent => self.expr(&r.expr),
            RuleType::Atomic => self.with_atom(Atom::Atomic, |s| s.expr(&r.expr)),
            RuleType::CompoundAtomic => self.with_atom(Atom::Compound, |s| s.expr(&r.expr)),
            RuleType::NonAtomic => self.with_atom(Atom::Non, |s| s.expr(&r.expr)),
        }
    }

    fn expr(&mut self, e: &'a OptimizedExpr) -> bool {
        if !self.burn() {
            return false;
        }
        match e {
            OptimizedExpr::Str(s) => self.lit(s),
            OptimizedExpr::Insens(s) => self.insens(s),
            OptimizedExpr::Range(a, b) => {
                let lo = a.chars().next().expect("empty char literal");
                let hi = b.chars().next().expect("empty char literal");
                self.range(lo, hi)
            }
            OptimizedExpr::Ident(name) => self.rule(name),
            OptimizedExpr::PeekSlice(s, e) => self.peek_slice(*s, *e, false),
            OptimizedExpr::PosPred(x) => {
                let pos = self.pos;
                let stack = self.stack.clone();
                let r = self.expr(x);
                self.pos = pos;
                self.stack = stack;
                r
            }
            OptimizedExpr::NegPred(x) => {
                let pos = self.pos;
                let stack = self.stack.clone();
                let r = self.expr(x);
                self.pos = pos;
                self.stack = stack;
                !r && !self.gave_up
            }
            OptimizedExpr::Seq(l, r) => self.seq(|s| s.expr(l) && s.skip() && s.expr(r)),
            OptimizedExpr::Choice(l, r) => self.expr(l) || (!self.gave_up && self.expr(r)),
            OptimizedExpr::Opt(x) => {
                self.expr(x);
                !self.gave_up
            }
            OptimizedExpr::Rep(x) => {
                // first repetition without leading skip; following ones are (skip ~ x) groups
                if self.expr(x) {
                    loop {
                        let ok = self.seq(|s| s.skip() && s.expr(x));
                        if !ok || self.gave_up {
                            break;
                        }
                    }
                }
                !self.gave_up
            }
            OptimizedExpr::Push(x) => {
                let start = self.pos;
                if self.expr(x) {
                    let s = self.input[start..self.pos].to_string();
                    self.stack.push(s);
                    true
                } else {
                    false
                }
            }
            OptimizedExpr::Skip(strings) => {
                let mut found = None;
                'outer: for from in self.pos..self.input.len() {
                    if !self.input.is_char_boundary(from) {
                        continue;
                    }
                    for s in strings {
                        if self.input[from..].starts_with(s.as_str()) {
                            found = Some(from);
                            break 'outer;
                        }
                    }
                }
                self.pos = found.unwrap_or(self.input.len());
                true
            }
            OptimizedExpr::RestoreOnErr(x) => {
                let stack = self.stack.clone();
                if self.expr(x) {
                    true
                } else {
                    self.stack = stack;
                    false
                }
            }
            #[allow(unreachable_patterns)]
            _ => panic!("reference interpreter: unsupported expression {e:?}"),
        }
    }
}
