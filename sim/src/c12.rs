//! C12 — a call limit never changes a result silently.
//!
//! (a) fault enumeration: for one parse job, the refusal point k (the value of the call limit) is
//!     swept over every value from 1 to N+1, N = number of counted calls of the unlimited parse;
//! (b) configuration world: caller threads parse while a configurator thread re-configures the
//!     process-wide switches at scheduler-chosen instants (shared with C15, see `cfgworld`).

use crate::hook;
use crate::parsework::{Core, Job, Outcome, Prepared};
use crate::prng::Rng;
use serde_json::{json, Value};
use std::num::NonZeroUsize;

#[derive(Clone, Debug)]
pub struct Violation {
    pub class: String,
    pub detail: String,
    pub k: Option<usize>,
}

#[derive(Clone, Debug, Default)]
pub struct SweepStats {
    pub calls: u64,
    pub points: u64,
    pub exhaustive: bool,
    /// number of k at which the limit error was reported
    pub limit_errors: u64,
    /// number of k at which the parse completed identically although a refusal... cannot happen;
    /// counts k with refusals == 0 (limit not reached)
    pub not_reached: u64,
    /// refusal struck but the result equals the unlimited one (refusal landed where the parse
    /// would have failed anyway and the error is... ) — counted for reach
    pub refused_but_equal: u64,
    pub limit_hit_at_last_call: u64,
    pub limit_error_without_refusal: u64,
    pub large_limits: u64,
}

pub fn set_limit(v: usize) {
    pest::set_call_limit(NonZeroUsize::new(v));
}

/// One parse under limit `v` (0 = none) and error detail `d`; returns outcome + (calls, refusals).
pub fn run_with(p: &Prepared, v: usize, d: bool) -> (Outcome, u64, u64) {
    hook::install();
    hook::reset();
    set_limit(v);
    pest::set_error_detail(d);
    let o = p.run();
    let (c, r) = hook::counts();
    set_limit(0);
    pest::set_error_detail(false);
    (o, c, r)
}

pub const HUGE: usize = usize::MAX / 2;

/// The values of k swept for a parse with `n` counted calls.
pub fn sweep_points(n: usize, max_exhaustive: usize, rng: &mut Rng) -> (Vec<usize>, bool) {
    if n + 1 <= max_exhaustive {
        return ((1..=n + 1).collect(), true);
    }
    let mut ks: Vec<usize> = (1..=max_exhaustive / 2).collect();
    for k in (n + 1).saturating_sub(50)..=n + 1 {
        ks.push(k);
    }
    for _ in 0..max_exhaustive / 4 {
        ks.push(1 + rng.below(n + 1));
    }
    ks.sort_unstable();
    ks.dedup();
    (ks, false)
}

/// Sweeps the refusal point over one job. `Err(reason)` = workload unusable (discarded).
pub fn sweep(
    job: &Job,
    max_calls: usize,
    max_exhaustive: usize,
    rng: &mut Rng,
    stats: &mut SweepStats,
) -> Result<Option<Violation>, &'static str> {
    let p = Prepared::new(job).ok_or("grammar rejected")?;
    // bound the cost of the reference run by counting calls (not by trusting the limit's report)
    let (probe, calls, refused) = run_with(&p, max_calls, false);
    if refused > 0 {
        return Err("too expensive");
    }
    if let Core::Panic(_) = probe.core {
        return Err("reference panics");
    }
    let n = calls as usize;
    let (r_inf, c2, _) = run_with(&p, 0, false);
    if c2 != calls {
        return Ok(Some(Violation {
            class: "nondeterministic-call-count".into(),
            detail: format!("{calls} calls with a huge limit, {c2} with none"),
            k: None,
        }));
    }
    if r_inf != probe {
        return Ok(Some(Violation {
            class: "silent-change".into(),
            detail: format!(
                "limit {max_calls} was never reached ({calls} calls) yet the result differs: {} vs unlimited {}",
                probe.core.short(),
                r_inf.core.short()
            ),
            k: Some(max_calls),
        }));
    }
    stats.calls += calls;
    let (ks, exhaustive) = sweep_points(n, max_exhaustive, rng);
    stats.exhaustive = exhaustive;
    let mut completed_at: Option<usize> = None;
    for k in ks {
        let (o, _c, refused) = run_with(&p, k, false);
        stats.points += 1;
        if let Core::Panic(m) = &o.core {
            return Ok(Some(Violation {
                class: "panic".into(),
                detail: format!("parse panicked under limit {k}: {m}"),
                k: Some(k),
            }));
        }
        let equal = o.core == r_inf.core;
        let limit_err = o.core.is_limit_error();
        if limit_err {
            stats.limit_errors += 1;
            if k == n {
                stats.limit_hit_at_last_call += 1;
            }
        }
        if refused == 0 {
            stats.not_reached += 1;
        } else if equal {
            stats.refused_but_equal += 1;
        }
        if !equal && !limit_err {
            return Ok(Some(Violation {
                class: "silent-change".into(),
                detail: format!(
                    "limit {k} (parse needs {n} calls, {refused} refusals): returned {} — unlimited result is {}",
                    o.core.short(),
                    r_inf.core.short()
                ),
                k: Some(k),
            }));
        }
        if refused == 0 && !equal {
            // only reachable with the limit error (k == calls needed: nothing was refused, the
            // parse failed on its own and the counter equals the limit) — the property allows it
            stats.limit_error_without_refusal += 1;
        }
        // second sentence: completes under some limit => completes identically under larger ones
        if let Some(k0) = completed_at {
            if !equal {
                return Ok(Some(Violation {
                    class: "not-monotone".into(),
                    detail: format!("completed under limit {k0} but not identically under the larger limit {k}"),
                    k: Some(k),
                }));
            }
        } else if equal && !r_inf.core.is_limit_error() {
            completed_at = Some(k);
        }
    }
    // "…to beyond the number of calls the parse needs": limits far beyond N, including values
    // around the integer-width boundaries, must all reproduce the unlimited result
    for k in large_limits(n, rng) {
        let (o, _c, refused) = run_with(&p, k, false);
        stats.points += 1;
        stats.large_limits += 1;
        if refused > 0 || o.core != r_inf.core {
            return Ok(Some(Violation {
                class: if o.core.is_limit_error() { "not-monotone" } else { "silent-change" }.into(),
                detail: format!(
                    "limit {k} (far beyond the {n} calls the parse needs; it completes under limit {}): returned {} — unlimited result is {}",
                    n + 1,
                    o.core.short(),
                    r_inf.core.short()
                ),
                k: Some(k),
            }));
        }
    }
    Ok(None)
}

/// Limit values far beyond the calls needed: powers of two and their neighbours (offsets chosen
/// below, at and above the number of calls), and the top of the usize range.
pub fn large_limits(n: usize, rng: &mut Rng) -> Vec<usize> {
    let mut v: Vec<usize> = vec![];
    let offs = [0usize, 1, 2, n / 2 + 1, n.saturating_sub(1).max(1), n, n + 1, 1 + rng.below(n + 2)];
    for shift in [16u32, 31, 32, 33, 48, 62, 63] {
        let base = 1usize << shift;
        for o in offs {
            v.push(base.wrapping_add(o));
            v.push(base.wrapping_sub(o.max(1)));
        }
        // multiples of the base with a small low part
        v.push(base.wrapping_mul(3).wrapping_add(1 + rng.below(n + 2)));
    }
    for o in offs {
        v.push(usize::MAX - o);
        v.push((usize::MAX >> 1).wrapping_add(o));
        v.push((usize::MAX >> 1) - o);
        v.push(usize::MAX - (1usize << 32) + o);
    }
    v.retain(|k| *k > n + 1);
    v.sort_unstable();
    v.dedup();
    // a seeded dozen per parse job: over the jobs of a run every boundary value is hit many times
    let mut pick = vec![];
    for _ in 0..12 {
        pick.push(v[rng.below(v.len())]);
    }
    pick.sort_unstable();
    pick.dedup();
    pick
}

pub fn violation_json(job: &Job, v: &Violation) -> Value {
    json!({"job": job.to_json(), "class": v.class, "detail": v.detail, "k": v.k})
}
