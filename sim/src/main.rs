mod c17;
mod gen;
mod hook;
mod prng;
mod sched;
mod world;

fn main() {
    let args: Vec<String> = std::env::args().collect();
    let n: u64 = args.get(1).and_then(|x| x.parse().ok()).unwrap_or(2000);
    let seed: u64 = std::env::var("VERIF_SEED").ok().and_then(|x| x.parse().ok()).unwrap_or(1);
    let mut stats = c17::GenStats { grammars_rejected: 0, refs_too_expensive: 0 };
    let mut probes = c17::Probes::default();
    let mut classes: std::collections::BTreeMap<String, u64> = Default::default();
    let t0 = std::time::Instant::now();
    let mut shown = 0;
    let only: Option<u64> = std::env::var("ONLY").ok().and_then(|x| x.parse().ok());
    for i in 0..n {
        if let Some(o) = only { if i != o { continue; } }
        let rs = prng::run_seed(seed, "C17", i);
        let mut wr = prng::Rng::stream(rs, "workload");
        let Some((w, refs)) = c17::gen_workload(&mut wr, &mut stats) else { continue };
        let spec = c17::gen_sched(rs);
        if std::env::var("TRACE").is_ok() { eprintln!("run {i} {:?} {:?} {:?} {:?}", spec, w.grammar_text, w.input, w.script); }
        let out = c17::execute(&w, spec);
        let v = c17::check_history(&w, &refs, &out, &mut probes);
        let key = v.as_ref().map(|v| v.class.clone()).unwrap_or_else(|| "ok".into());
        *classes.entry(key).or_default() += 1;
        if let Some(v) = v {
            if shown < 6 {
                shown += 1;
                println!("--- run {i} seed {rs} {:?}\n{}\ninput={:?}\nscript={:?}\nVIOL {:?}", out.ending, w.grammar_text, w.input, w.script, v);
                for l in c17::render_history(&out.events).iter().rev().take(25).rev() { println!("   {l}"); }
            }
        }
    }
    println!("{n} runs in {:?}; classes {classes:?}; rejected {} expensive {}", t0.elapsed(), stats.grammars_rejected, stats.refs_too_expensive);
    println!("{}", probes.to_json());
}
