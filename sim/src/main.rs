mod c12;
mod c15;
mod c17;
mod cfgworld;
mod gen;
mod hook;
mod minimise;
mod parsework;
mod prng;
mod refinterp;
mod sched;
mod worker;
mod world;

use serde_json::{json, Map, Value};
use std::collections::BTreeMap;
use std::path::Path;
use std::process::{Command, Stdio};
use std::time::{Duration, Instant};

fn arg_val(args: &[String], name: &str) -> Option<String> {
    args.iter().position(|a| a == name).and_then(|i| args.get(i + 1).cloned())
}
fn has_flag(args: &[String], name: &str) -> bool {
    args.iter().any(|a| a == name)
}

/// Directory for replay files / evidence: /verif/{replays,evidence} unless VERIF_SCRATCH names
/// another base directory (used by the sensitivity driver so that committed evidence is not
/// overwritten by runs against deliberately broken trees).
fn out_base() -> String {
    std::env::var("VERIF_SCRATCH").unwrap_or_else(|_| "/verif".into())
}

fn verif_seed() -> u64 {
    std::env::var("VERIF_SEED").ok().and_then(|x| x.parse().ok()).unwrap_or(1)
}

fn level_of(prop: &str) -> &'static str {
    match prop {
        "C12" => "fault_enumeration",
        _ => "exploration",
    }
}

/// (worker budget seconds, max runs per worker)
fn budget(prop: &str, tier: &str) -> (u64, u64) {
    match (prop, tier) {
        ("C17", "quick") => (45, u64::MAX),
        ("C17", _) => (1500, u64::MAX),
        ("C12", "quick") => (40, u64::MAX),
        ("C12", _) => (1200, u64::MAX),
        ("C15", "quick") => (40, u64::MAX),
        (_, _) => (1200, u64::MAX),
    }
}

fn merge(a: &mut Value, b: &Value) {
    match (a, b) {
        (Value::Object(ma), Value::Object(mb)) => {
            for (k, vb) in mb {
                match ma.get_mut(k) {
                    Some(va) => merge(va, vb),
                    None => {
                        ma.insert(k.clone(), vb.clone());
                    }
                }
            }
        }
        (Value::Array(xa), Value::Array(xb)) => xa.extend(xb.iter().cloned()),
        (Value::Bool(x), Value::Bool(y)) => *x = *x && *y,
        (va, vb) => {
            if let (Some(x), Some(y)) = (va.as_u64(), vb.as_u64()) {
                *va = json!(x + y);
            } else if let (Some(x), Some(y)) = (va.as_f64(), vb.as_f64()) {
                // wall clock: keep the maximum
                *va = json!(x.max(y));
            }
        }
    }
}

struct Known {
    status: String,
    id: String,
    key: String,
    what: String,
}

fn load_known(prop: &str) -> Vec<Known> {
    let mut out = vec![];
    if let Ok(t) = std::fs::read_to_string("/verif/known_findings.json") {
        if let Ok(v) = serde_json::from_str::<Value>(&t) {
            if let Some(a) = v.get("entries").and_then(|e| e.as_array()) {
                for e in a {
                    if e.get("property").and_then(|p| p.as_str()) != Some(prop) {
                        continue;
                    }
                    out.push(Known {
                        status: e.get("status").and_then(|x| x.as_str()).unwrap_or("").to_string(),
                        id: e.get("id").and_then(|x| x.as_str()).unwrap_or("").to_string(),
                        key: e.get("match").and_then(|x| x.as_str()).unwrap_or("").to_string(),
                        what: e.get("what").and_then(|x| x.as_str()).unwrap_or("").to_string(),
                    });
                }
            }
        }
    }
    out
}

fn self_exe() -> String {
    std::env::current_exe().unwrap().to_string_lossy().to_string()
}

struct Triage {
    violations: u64,
    lines: Vec<String>,
    harness_error: Option<String>,
    known_seen: BTreeMap<String, u64>,
}

/// Regenerates failing run `index`, minimises it, writes the replay file and verifies it in a
/// fresh process. Returns the replay path.
fn minimise_and_write(prop: &str, seed: u64, entry: &Value, spurious: bool) -> Result<String, String> {
    // in a child process: keeps the engine's stderr chatter out of the check's output and a
    // pathological minimisation from taking the orchestrator down
    let mut c = Command::new(self_exe());
    c.args(["minimise", prop, &seed.to_string(), &entry.to_string()]);
    if spurious {
        c.arg("--with-spurious-wake");
    }
    let outf = format!("/verif/target/run/minimise-{}-{}.out", std::process::id(), entry.get("index").and_then(|x| x.as_u64()).unwrap_or(0));
    std::fs::create_dir_all("/verif/target/run").ok();
    let of = std::fs::File::create(&outf).map_err(|e| e.to_string())?;
    let mut child = c
        .stdout(Stdio::from(of))
        .stderr(Stdio::null())
        .spawn()
        .map_err(|e| e.to_string())?;
    // hard wall-clock limit on top of the minimiser's own 45 s cap
    let t0 = Instant::now();
    loop {
        match child.try_wait() {
            Ok(Some(_)) => break,
            Ok(None) => {
                if t0.elapsed() > Duration::from_secs(180) {
                    let _ = child.kill();
                    let _ = child.wait();
                    let _ = std::fs::remove_file(&outf);
                    return Err("minimiser exceeded its wall-clock limit and was killed".into());
                }
                std::thread::sleep(Duration::from_millis(20));
            }
            Err(e) => return Err(e.to_string()),
        }
    }
    let txt = std::fs::read_to_string(&outf).unwrap_or_default();
    let _ = std::fs::remove_file(&outf);
    for l in txt.lines() {
        if let Some(p) = l.strip_prefix("MINIMISED ") {
            return Ok(p.trim().to_string());
        }
    }
    Err(txt.lines().last().unwrap_or("minimiser produced no output").to_string())
}

fn minimise_main(args: &[String]) -> i32 {
    let prop = args.get(2).cloned().unwrap_or_default();
    let seed: u64 = args.get(3).and_then(|x| x.parse().ok()).unwrap_or(1);
    let entry: Value = match args.get(4).and_then(|x| serde_json::from_str(x).ok()) {
        Some(v) => v,
        None => return 2,
    };
    world::init();
    hook::install();
    minimise::set_time_cap(45);
    match minimise_inproc(&prop, seed, &entry, has_flag(args, "--with-spurious-wake")) {
        Ok(p) => {
            println!("MINIMISED {p}");
            0
        }
        Err(e) => {
            println!("ERROR {e}");
            2
        }
    }
}

fn minimise_inproc(prop: &str, seed: u64, entry: &Value, spurious: bool) -> Result<String, String> {
    std::fs::create_dir_all(format!("{}/replays", out_base())).ok();
    let class = entry.get("class").and_then(|x| x.as_str()).unwrap_or("").to_string();
    let sig = entry.get("signature").and_then(|x| x.as_str()).unwrap_or("").to_string();
    let index = entry.get("index").and_then(|x| x.as_u64());
    let corpus_index = entry.get("corpus_index").and_then(|x| x.as_u64());
    let tag = match (index, corpus_index) {
        (Some(i), _) => format!("{seed}-{i}"),
        (_, Some(c)) => format!("{seed}-corpus{c}"),
        _ => format!("{seed}-x"),
    };
    let path = format!("{}/replays/{prop}-{tag}.json", out_base());
    let value: Value = if prop == "C17" {
        let i = index.ok_or("no index")?;
        let (w, spec, _) = worker::c17_case(seed, i, spurious);
        let (w, refs) = w.ok_or("workload does not regenerate")?;
        let out = c17::execute(&w, spec);
        let mut probes = c17::Probes::default();
        let v = c17::check_history(&w, &refs, &out, &mut probes).ok_or("failure does not regenerate from its seed")?;
        if v.class != class || v.signature != sig {
            return Err(format!("regenerated run fails differently: {} / {}", v.class, v.signature));
        }
        let first = minimise::Fail17 {
            w,
            decisions: out.decisions.clone(),
            v,
            hash: c17::history_hash(&out.events),
            history: c17::render_history(&out.events),
        };
        let m = minimise::minimise17(first, 60);
        minimise::replay_json17(&m, seed, Some(i))
    } else if class.starts_with("cfg:") {
        let i = index.ok_or("no index")?;
        let small = worker::small_corpus();
        let (w, spec) = if prop == "C12" {
            match worker::c12_case(seed, i, &small) {
                worker::Case12::Cfg(w, s) => (w, s),
                _ => return Err("case does not regenerate".into()),
            }
        } else {
            match worker::c15_case(seed, i, &small) {
                worker::Case15::Cfg(w, s) => (w, s),
                _ => return Err("case does not regenerate".into()),
            }
        };
        let run = cfgworld::execute(&w, spec).ok_or("grammar rejected")?;
        let mut p = cfgworld::CfgProbes::default();
        let v = cfgworld::check(prop, &w, &run, &mut p).ok_or("failure does not regenerate from its seed")?;
        let first = minimise::FailCfg {
            prop: prop.to_string(),
            w,
            decisions: run.world.decisions.clone(),
            class: v.class,
            detail: v.detail,
            hash: c17::history_hash(&run.world.events),
            history: c17::render_history(&run.world.events),
        };
        let m = minimise::minimise_cfg(first, 40);
        minimise::replay_json_cfg(&m, seed, Some(i))
    } else {
        let (job, ast) = if let Some(c) = corpus_index {
            let corpus = parsework::fixed_corpus();
            (corpus.jobs.get(c as usize).ok_or("bad corpus index")?.clone(), None)
        } else {
            let i = index.ok_or("no index")?;
            let small: Vec<parsework::Job> = vec![];
            if prop == "C12" {
                match worker::c12_case(seed, i, &small) {
                    worker::Case12::Sweep(j, a) => (j, a),
                    _ => return Err("case does not regenerate".into()),
                }
            } else {
                match worker::c15_case(seed, i, &small) {
                    worker::Case15::Diff(j, a) => (j, a),
                    _ => return Err("case does not regenerate".into()),
                }
            }
        };
        let m = minimise::minimise_job(prop, &job, ast).ok_or("failure does not regenerate from its seed")?;
        minimise::replay_json_job(&m, seed, index)
    };
    std::fs::write(&path, serde_json::to_string_pretty(&value).unwrap()).map_err(|e| e.to_string())?;
    // replay in a fresh process: must fail the same way
    let out = Command::new(self_exe())
        .args(["replay", &path])
        .stdout(Stdio::piped())
        .stderr(Stdio::null())
        .output()
        .map_err(|e| e.to_string())?;
    let txt = String::from_utf8_lossy(&out.stdout).to_string();
    if !txt.contains("reproduced=true") {
        return Err(format!("replay of {path} in a fresh process did not reproduce: {txt}"));
    }
    if txt.contains("hash_match=false") {
        return Err(format!("replay of {path} reproduced the class but with a different history"));
    }
    Ok(path)
}

fn triage(prop: &str, seed: u64, violations: &[Value], spurious: bool) -> Triage {
    let known = load_known(prop);
    let mut groups: BTreeMap<String, Vec<&Value>> = BTreeMap::new();
    for v in violations {
        let key = format!(
            "{}|{}",
            v.get("class").and_then(|x| x.as_str()).unwrap_or(""),
            v.get("signature").and_then(|x| x.as_str()).unwrap_or("")
        );
        groups.entry(key).or_default().push(v);
    }
    let mut t = Triage {
        violations: 0,
        lines: vec![],
        harness_error: None,
        known_seen: BTreeMap::new(),
    };
    for (key, mut vs) in groups {
        vs.sort_by_key(|v| v.get("index").and_then(|x| x.as_u64()).unwrap_or(u64::MAX));
        let is_known = known.iter().find(|k| k.status == "known" && k.key == key);
        if key.starts_with("harness") {
            t.harness_error = Some(format!(
                "harness inconsistency: {}",
                vs[0].get("detail").and_then(|x| x.as_str()).unwrap_or("")
            ));
            continue;
        }
        // one minimised, replay-verified example per group (two for unknown groups)
        let take = if is_known.is_some() { 1 } else { 2 };
        let mut produced = 0;
        let mut last_err = None;
        for v in vs.iter().take(8) {
            if produced >= take {
                break;
            }
            let tm = Instant::now();
            let res = minimise_and_write(prop, seed, v, spurious);
            eprintln!("triage: group {key} index {:?} -> {:?} in {:.1}s", v.get("index"), res.as_ref().map(|p| p.len()), tm.elapsed().as_secs_f64());
            match res {
                Ok(path) => {
                    produced += 1;
                    match is_known {
                        Some(k) => {
                            *t.known_seen.entry(k.id.clone()).or_default() += vs.len() as u64;
                            t.lines.push(format!(
                                "KNOWN-FINDING: property={prop} {} — {} ({} occurrences in this run; example replay={path})",
                                k.id,
                                k.what,
                                vs.len()
                            ));
                        }
                        None => {
                            t.violations += 1;
                            t.lines.push(format!("VIOLATION property={prop} replay={path}"));
                            t.lines.push(format!(
                                "  class={} detail={}",
                                key,
                                v.get("detail").and_then(|x| x.as_str()).unwrap_or("")
                            ));
                        }
                    }
                }
                Err(e) => last_err = Some(e),
            }
        }
        if produced == 0 {
            t.harness_error = Some(format!(
                "a failing run of class {key} could not be minimised/replayed: {}",
                last_err.unwrap_or_default()
            ));
        }
    }
    t
}

fn read_hashes(dir: &str, nw: u64) -> Vec<u64> {
    let mut all = vec![];
    for w in 0..nw {
        if let Ok(b) = std::fs::read(format!("{dir}/hashes_{w}.bin")) {
            for c in b.chunks_exact(8) {
                all.push(u64::from_le_bytes(c.try_into().unwrap()));
            }
        }
    }
    all
}

fn rule_text(prop: &str) -> &'static str {
    match prop {
        "C17" => "one case = one simulated world: seeded (grammar | doc grammar, input sampled from the grammar, breakpoint set, controller command script of personality P/R/I, channel capacities) x seeded schedule (uniform/sticky/PCT-like/starve); distinct = distinct hash of the full seam-event history; non-trivial = at least one context switch between seam operations of different threads (or a fired fault)",
        "C12" => "one case = one parse job swept over EVERY call-limit value 1..N+1 (N = counted calls of the unlimited parse; sampled only when N+1 exceeds the per-tier cap) or one configuration world (caller threads + configurator thread under a seeded schedule); distinct = distinct (grammar, rule, input) job hash resp. distinct world history hash; non-trivial = the job has at least one refusal point resp. the world has a cross-thread context switch",
        _ => "one case = one parse job compared with error detail off vs on (without limit and at enumerated/sampled refusal points) or one configuration world in which another simulated thread flips the switch; distinct = distinct job hash resp. world history hash; non-trivial = the parse fails or a refusal point was crossed resp. a cross-thread context switch happened",
    }
}

fn components() -> Value {
    json!({
        "real_code": ["pest (parser_state, error, position, stack, iterators)", "pest_meta (meta-parser, validator, optimizer inside every run)", "pest_vm", "pest_derive/pest_generator output for json/toml/http/sql, the meta grammar, vm/tests/{grammar,lists,reporting}.pest and a build-time family of 96 generated grammars (C12/C15)", "pest_debugger/src/lib.rs (every line except the use-std block)"],
        "stubbed_or_modelled": ["std::thread::{spawn,park,JoinHandle,Thread::unpark} -> simstd on shuttle-engine coroutines (own park token)", "std::sync::{Mutex, atomic::AtomicBool (SeqCst only), mpsc::sync_channel capacity>=1} -> simstd", "client of the debugger -> scripted controller", "other caller threads / configurator -> scripted"],
        "not_simulated": ["debugger/src/main.rs (rustyline/reqwest CLI)"]
    })
}

fn check(args: &[String]) -> i32 {
    let prop = args.get(2).cloned().unwrap_or_default();
    if !["C12", "C15", "C17"].contains(&prop.as_str()) {
        eprintln!("usage: pestsim check <C12|C15|C17> [--tier quick|thorough]");
        return 2;
    }
    let tier = arg_val(args, "--tier")
        .or_else(|| std::env::var("VERIF_TIER").ok())
        .unwrap_or_else(|| "quick".into());
    let tier = if tier == "thorough" { "thorough" } else { "quick" }.to_string();
    let seed = verif_seed();
    let spurious = has_flag(args, "--with-spurious-wake");
    let nw: u64 = arg_val(args, "--workers").and_then(|x| x.parse().ok()).unwrap_or(16);
    let (mut bsecs, maxr) = budget(&prop, &tier);
    if let Some(b) = arg_val(args, "--budget-s").and_then(|x| x.parse().ok()) {
        bsecs = b;
    }
    let max_runs: u64 = arg_val(args, "--max-runs").and_then(|x| x.parse().ok()).unwrap_or(maxr);
    println!("VERIF_SEED={seed} property={prop} tier={tier} workers={nw} worker_budget_s={bsecs}");
    let t0 = Instant::now();
    let dir = format!("/verif/target/run/{prop}-{tier}-{}", std::process::id());
    let _ = std::fs::remove_dir_all(&dir);
    std::fs::create_dir_all(&dir).unwrap();
    let mut children = vec![];
    for w in 0..nw {
        let errf = std::fs::File::create(format!("{dir}/stderr_{w}.txt")).unwrap();
        let mut c = Command::new(self_exe());
        c.args([
            "worker",
            &prop,
            "--seed",
            &seed.to_string(),
            "--wid",
            &w.to_string(),
            "--nw",
            &nw.to_string(),
            "--budget-s",
            &bsecs.to_string(),
            "--max-runs",
            &max_runs.to_string(),
            "--out",
            &dir,
            "--tier",
            &tier,
        ]);
        if spurious {
            c.arg("--with-spurious-wake");
        }
        c.stdout(Stdio::null()).stderr(Stdio::from(errf));
        children.push((w, c.spawn().expect("spawn worker")));
    }
    // watchdog: a world that loops without a seam operation cannot be pre-empted by the engine
    let deadline = Instant::now() + Duration::from_secs(bsecs + 75 + bsecs / 4);
    let mut hung: Vec<u64> = vec![];
    let mut failed: Vec<(u64, i32)> = vec![];
    for (w, mut c) in children {
        loop {
            match c.try_wait() {
                Ok(Some(st)) => {
                    if !st.success() {
                        failed.push((w, st.code().unwrap_or(-1)));
                    }
                    break;
                }
                Ok(None) => {
                    if Instant::now() > deadline {
                        let _ = c.kill();
                        let _ = c.wait();
                        hung.push(w);
                        break;
                    }
                    std::thread::sleep(Duration::from_millis(100));
                }
                Err(_) => break,
            }
        }
    }
    if !failed.is_empty() {
        for (w, code) in &failed {
            let tail = std::fs::read_to_string(format!("{dir}/stderr_{w}.txt")).unwrap_or_default();
            let tail: Vec<&str> = tail.lines().rev().take(5).collect();
            println!("HARNESS-ERROR worker {w} exited with {code}: {tail:?}");
        }
        return 2;
    }
    println!("[{:.1}s] workers finished", t0.elapsed().as_secs_f64());
    let mut merged = Value::Object(Map::new());
    for w in 0..nw {
        if hung.contains(&w) {
            continue;
        }
        let p = format!("{dir}/worker_{w}.json");
        match std::fs::read_to_string(&p).ok().and_then(|t| serde_json::from_str::<Value>(&t).ok()) {
            Some(v) => merge(&mut merged, &v),
            None => {
                println!("HARNESS-ERROR worker {w} left no report");
                return 2;
            }
        }
    }
    let mut hashes = read_hashes(&dir, nw);
    hashes.sort_unstable();
    hashes.dedup();
    let distinct = hashes.len() as u64;
    let evaluations = merged.get("runs").and_then(|x| x.as_u64()).unwrap_or(0);
    let mut violations: Vec<Value> = merged
        .get("violations")
        .and_then(|x| x.as_array())
        .cloned()
        .unwrap_or_default();
    // what a hung (killed) worker had found before it hung
    for w in &hung {
        if let Ok(t) = std::fs::read_to_string(format!("{dir}/viol_{w}.jsonl")) {
            for l in t.lines() {
                if let Ok(v) = serde_json::from_str::<Value>(l) {
                    violations.push(v);
                }
            }
        }
    }
    println!("[{:.1}s] reports merged: {} failing runs reported", t0.elapsed().as_secs_f64(), violations.len());
    let mut tri = triage(&prop, seed, &violations, spurious);
    println!("[{:.1}s] triage (minimise + replay) finished", t0.elapsed().as_secs_f64());
    // a hung worker is a liveness failure of the run it was executing
    let mut exit = 0;
    for w in &hung {
        std::fs::create_dir_all(format!("{}/replays", out_base())).ok();
        let path = format!("{}/replays/{prop}-{seed}-hang-worker{w}.json", out_base());
        let hb = std::fs::read_to_string(format!("{dir}/hb_{w}")).unwrap_or_default();
        let v = json!({"property": prop, "kind": "hang", "class": "hang", "signature": "",
            "detail": "worker did not finish: the run named by run_index loops without reaching any scheduling point",
            "verif_seed": seed, "worker": w, "workers": nw, "run_index": hb.trim().parse::<u64>().ok(), "tier": tier,
            "spurious": spurious});
        std::fs::write(&path, serde_json::to_string_pretty(&v).unwrap()).ok();
        tri.lines.push(format!("VIOLATION property={prop} replay={path}"));
        tri.violations += 1;
    }
    // second engine (cross-check only): Miri on real std, produced by tools/miri_crosscheck.sh
    let mut miri_summary: Option<Value> = None;
    if prop == "C17" && tier == "thorough" && !spurious {
        if let Some(v) = std::fs::read_to_string("/verif/target/run/miri_c17.json")
            .ok()
            .and_then(|t| serde_json::from_str::<Value>(&t).ok())
        {
            if let Some(fs) = v.get("failures").and_then(|f| f.as_array()) {
                for f in fs {
                    std::fs::create_dir_all(format!("{}/replays", out_base())).ok();
                    let sc = f.get("scenario").and_then(|x| x.as_str()).unwrap_or("?");
                    let sd = f.get("seed").and_then(|x| x.as_str()).unwrap_or("?");
                    let path = format!("{}/replays/C17-miri-{sc}-{sd}.json", out_base());
                    let rec = json!({"property": "C17", "kind": "miri", "class": "miri-failure", "signature": "",
                        "detail": f.get("message"), "scenario": sc, "miri_seed": sd,
                        "command": format!("/verif/tools/miri_crosscheck.sh 0 /dev/null {sc} {sd}")});
                    std::fs::write(&path, serde_json::to_string_pretty(&rec).unwrap()).ok();
                    tri.lines.push(format!("VIOLATION property=C17 replay={path}"));
                    tri.lines.push(format!("  class=miri-failure scenario={sc} seed={sd} {}", f.get("message").and_then(|x| x.as_str()).unwrap_or("")));
                    tri.violations += 1;
                }
            }
            miri_summary = Some(v);
        }
    }
    for l in &tri.lines {
        println!("{l}");
    }
    if let Some(e) = &tri.harness_error {
        println!("HARNESS-ERROR {e}");
        exit = 2;
    }
    if tri.violations > 0 {
        exit = 1;
    }
    let wall = t0.elapsed().as_secs_f64();
    let worker_wall = merged.get("wall_s").and_then(|x| x.as_f64()).unwrap_or(wall).max(0.001);
    let mut samples = merged.get("samples").cloned().unwrap_or(json!([]));
    if let Some(a) = samples.as_array_mut() {
        a.truncate(6);
        if a.is_empty() && exit == 0 {
            println!("HARNESS-ERROR no sample case was recorded by any worker");
            exit = 2;
        }
    }
    let mut coverage = json!({
        "evaluations": evaluations,
        "distinct_nontrivial": distinct,
        "rule": rule_text(&prop),
        "samples": samples,
        "exhaustive": false,
        "runs_per_hour": (evaluations as f64 / worker_wall * 3600.0) as u64,
        "seeds": {"VERIF_SEED": seed, "run_seed": "splitmix64(VERIF_SEED, property, run index); streams workload/schedule/strategy/faults derived by label"},
        "simulated_time_scheduler_steps": merged.get("scheduler_steps").cloned().unwrap_or(json!(0)),
        "workers": nw,
        "components": components(),
        "known_findings_seen": tri.known_seen.iter().map(|(k, v)| json!({"id": k, "occurrences": v})).collect::<Vec<_>>(),
        "hung_workers": hung,
    });
    if let (Value::Object(c), Value::Object(m)) = (&mut coverage, &merged) {
        for (k, v) in m {
            if ["violations", "samples", "runs", "wall_s", "scheduler_steps"].contains(&k.as_str()) {
                continue;
            }
            c.insert(k.clone(), v.clone());
        }
    }
    if let Some(m) = miri_summary {
        coverage["second_engine_cross_check"] = m;
    }
    if prop == "C12" {
        let all_ex = merged.get("all_sweeps_exhaustive").and_then(|x| x.as_bool()).unwrap_or(false);
        coverage["exhaustive_per_workload"] = json!(all_ex);
        coverage["fault_kinds"] = json!({
            "F1 refusal at call index k (enumerated)": merged.get("fault_points_enumerated"),
            "F2 re-configuration at a scheduler-chosen instant (stores landed inside a running parse)": merged.get("cfg_probes").and_then(|p| p.get("store_landed_inside_a_running_parse")),
            "F3 thread interleaving (scheduler steps)": merged.get("scheduler_steps"),
        });
    } else if prop == "C15" {
        coverage["fault_kinds"] = json!({
            "F1 refusal at call index k crossed with detail on/off": merged.get("refusal_points_crossed"),
            "F2 switch flipped at a scheduler-chosen instant (stores landed inside a running parse)": merged.get("cfg_probes").and_then(|p| p.get("store_landed_inside_a_running_parse")),
            "F3 thread interleaving (scheduler steps)": merged.get("scheduler_steps"),
        });
    } else {
        let p = merged.get("probes");
        let g = |k: &str| p.and_then(|p| p.get(k)).cloned().unwrap_or(json!(0));
        coverage["fault_kinds"] = json!({
            "F3 thread interleaving / starvation (scheduler steps)": merged.get("scheduler_steps"),
            "F4 spurious park return (separate unregistered configuration only)": g("spurious_wakes_fired"),
            "F5 restart while previous parser parked": g("restart_while_parked"),
            "F5 restart while previous parser running": g("restart_while_running"),
            
            "F5 restart after previous parser finished": g("restart_after_finish"),
            "F6 continue with no breakpoint pending": g("cont_with_no_breakpoint_pending"),
            "F6 coalesced continue tokens": g("coalesced_unpark_tokens"),
            "F7 breakpoint set mutated during a run": g("breakpoint_mutation_during_run"),
            "slow consumer: send blocked on full channel": g("send_blocked_on_full_channel"),
        });
    }
    let evidence = json!({
        "property_id": prop,
        "tier": tier,
        "seed": seed,
        "level": level_of(&prop),
        "coverage": coverage,
        "assumptions": [
            "every atomic ordering is treated as sequentially consistent (shuttle-style model); weak-memory reorderings are not explored",
            "std::thread::park does not return spuriously (true of std's futex/condvar parkers today; the separate --with-spurious-wake configuration shows what happens otherwise)",
            "channel capacity >= 1 (rendezvous channels are out of scope, see DESIGN.md 4.3)",
            "the client keeps every receiver alive while a parser thread may still send",
            "generated grammars: rule i references only rules j > i plus one guarded self-reference; POP/PEEK only after a PUSH in the same sequence",
        ],
        "wall_s": wall,
        "violations": tri.violations,
    });
    std::fs::create_dir_all(format!("{}/evidence", out_base())).ok();
    let ep = if spurious {
        format!("/verif/target/run/{prop}-spurious-evidence.json")
    } else {
        format!("{}/evidence/{prop}.json", out_base())
    };
    std::fs::write(&ep, serde_json::to_string_pretty(&evidence).unwrap()).expect("write evidence");
    println!(
        "{prop} {tier}: {evaluations} simulated runs, {distinct} distinct non-trivial, {} violations, {:.1}s; evidence {ep}",
        tri.violations, wall
    );
    if exit == 0 {
        let _ = std::fs::remove_dir_all(&dir);
    }
    exit
}

fn worker_main(args: &[String]) -> i32 {
    let a = worker::WorkerArgs {
        prop: args.get(2).cloned().unwrap_or_default(),
        seed: arg_val(args, "--seed").and_then(|x| x.parse().ok()).unwrap_or(1),
        wid: arg_val(args, "--wid").and_then(|x| x.parse().ok()).unwrap_or(0),
        nw: arg_val(args, "--nw").and_then(|x| x.parse().ok()).unwrap_or(1),
        budget: Duration::from_secs(arg_val(args, "--budget-s").and_then(|x| x.parse().ok()).unwrap_or(10)),
        max_runs: arg_val(args, "--max-runs").and_then(|x| x.parse().ok()).unwrap_or(u64::MAX),
        out_dir: arg_val(args, "--out").unwrap_or_else(|| "/verif/target/run/manual".into()),
        tier: arg_val(args, "--tier").unwrap_or_else(|| "quick".into()),
        spurious: has_flag(args, "--with-spurious-wake"),
        trace_runs: has_flag(args, "--trace-runs"),
    };
    world::init();
    hook::install();
    let out = match a.prop.as_str() {
        "C17" => worker::run_c17(&a),
        "C12" => worker::run_c12(&a),
        "C15" => worker::run_c15(&a),
        _ => return 2,
    };
    worker::write_out(&a, out);
    0
}

/// Executes exactly one run (seed, index) of a property and prints its class.
fn runone_main(args: &[String]) -> i32 {
    let prop = args.get(2).cloned().unwrap_or_default();
    let a = worker::WorkerArgs {
        prop: prop.clone(),
        seed: args.get(3).and_then(|x| x.parse().ok()).unwrap_or(1),
        wid: args.get(4).and_then(|x| x.parse().ok()).unwrap_or(0),
        nw: u64::MAX / 4,
        budget: Duration::from_secs(1_000_000),
        max_runs: 1,
        out_dir: format!("/verif/target/run/runone-{}", std::process::id()),
        tier: "quick".into(),
        spurious: has_flag(args, "--with-spurious-wake"),
        trace_runs: true,
    };
    world::init();
    hook::install();
    let out = match prop.as_str() {
        "C17" => worker::run_c17(&a),
        "C12" => worker::run_c12(&a),
        "C15" => worker::run_c15(&a),
        _ => return 2,
    };
    println!("{}", out.run_lines.join("\n"));
    println!("{}", out.report.get("classes").cloned().unwrap_or_default());
    let _ = std::fs::remove_dir_all(&a.out_dir);
    0
}

fn replay_main(args: &[String]) -> i32 {
    let Some(path) = args.get(2) else {
        eprintln!("usage: pestsim replay <file>");
        return 2;
    };
    let Ok(text) = std::fs::read_to_string(path) else {
        eprintln!("cannot read {path}");
        return 2;
    };
    let Ok(v) = serde_json::from_str::<Value>(&text) else {
        eprintln!("{path} is not JSON");
        return 2;
    };
    world::init();
    hook::install();
    let prop = v.get("property").and_then(|x| x.as_str()).unwrap_or("?").to_string();
    if v.get("kind").and_then(|x| x.as_str()) == Some("miri") {
        let sc = v.get("scenario").and_then(|x| x.as_str()).unwrap_or("protocol");
        let sd = v.get("miri_seed").and_then(|x| x.as_str()).unwrap_or("0");
        let st = Command::new("/verif/tools/miri_crosscheck.sh")
            .args(["0", "/dev/null", sc, sd])
            .stdout(Stdio::null())
            .stderr(Stdio::null())
            .status();
        return match st {
            Ok(s) if s.success() => {
                println!("REPLAY reproduced=false class=ok (miri scenario {sc} seed {sd} passes)");
                0
            }
            Ok(_) => {
                println!("REPLAY reproduced=true class=miri-failure hash_match=true detail=miri scenario {sc} seed {sd} fails");
                println!("VIOLATION property={prop} replay={path}");
                1
            }
            Err(e) => {
                println!("REPLAY error: {e}");
                2
            }
        };
    }
    if v.get("kind").and_then(|x| x.as_str()) == Some("hang") {
        // re-execute the named run in a child process under a wall-clock limit
        let seed = v.get("verif_seed").and_then(|x| x.as_u64()).unwrap_or(1);
        let Some(idx) = v.get("run_index").and_then(|x| x.as_u64()) else {
            println!("REPLAY error: hang record without run index");
            return 2;
        };
        let mut c = Command::new(self_exe());
        c.args(["runone", &prop, &seed.to_string(), &idx.to_string()]);
        if v.get("spurious").and_then(|x| x.as_bool()).unwrap_or(false) {
            c.arg("--with-spurious-wake");
        }
        let mut child = c.stdout(Stdio::piped()).stderr(Stdio::null()).spawn().expect("spawn");
        let t0 = Instant::now();
        loop {
            match child.try_wait() {
                Ok(Some(_)) => {
                    println!("REPLAY reproduced=false class=ok (run {idx} terminated in {:.1}s)", t0.elapsed().as_secs_f64());
                    return 0;
                }
                _ => {
                    if t0.elapsed() > Duration::from_secs(60) {
                        let _ = child.kill();
                        let _ = child.wait();
                        println!("REPLAY reproduced=true class=hang hash_match=true detail=run {idx} does not terminate within 60 s of wall clock");
                        println!("VIOLATION property={prop} replay={path}");
                        return 1;
                    }
                    std::thread::sleep(Duration::from_millis(50));
                }
            }
        }
    }
    match minimise::replay(&v) {
        Ok(r) => {
            println!(
                "REPLAY reproduced={} class={} signature={} hash_match={} detail={}",
                r.reproduced, r.class, r.signature, r.hash_matches, r.detail
            );
            if r.reproduced {
                println!("VIOLATION property={prop} replay={path}");
                1
            } else {
                0
            }
        }
        Err(e) => {
            println!("REPLAY error: {e}");
            2
        }
    }
}

/// Determinism self-test: the same runs executed twice, in different processes and at different
/// worker counts, must give identical per-run history hashes and outcomes.
fn selftest(args: &[String]) -> i32 {
    let prop = args.get(2).cloned().unwrap_or_else(|| "C17".into());
    let runs: u64 = arg_val(args, "--runs").and_then(|x| x.parse().ok()).unwrap_or(6000);
    let seed = verif_seed();
    let base = format!("/verif/target/run/selftest-{prop}-{}", std::process::id());
    let _ = std::fs::remove_dir_all(&base);
    let mut maps: Vec<BTreeMap<u64, String>> = vec![];
    for (round, nw) in [(0u64, 16u64), (1, 16), (2, 4), (3, 1), (4, 7)] {
        let dir = format!("{base}/r{round}");
        std::fs::create_dir_all(&dir).unwrap();
        let per = runs.div_ceil(nw);
        let mut ch = vec![];
        for w in 0..nw {
            let c = Command::new(self_exe())
                .args([
                    "worker", &prop, "--seed", &seed.to_string(), "--wid", &w.to_string(), "--nw", &nw.to_string(),
                    "--budget-s", "100000", "--max-runs", &per.to_string(), "--out", &dir, "--trace-runs",
                ])
                .stdout(Stdio::null())
                .stderr(Stdio::null())
                .spawn()
                .unwrap();
            ch.push(c);
        }
        for mut c in ch {
            let _ = c.wait();
        }
        let mut m = BTreeMap::new();
        for w in 0..nw {
            let t = std::fs::read_to_string(format!("{dir}/runs_{w}.txt")).unwrap_or_default();
            for l in t.lines() {
                let mut it = l.splitn(2, ' ');
                if let (Some(i), Some(rest)) = (it.next(), it.next()) {
                    if let Ok(i) = i.parse::<u64>() {
                        if i < runs {
                            m.insert(i, rest.to_string());
                        }
                    }
                }
            }
        }
        println!("round {round}: {nw} worker processes, {} runs recorded", m.len());
        maps.push(m);
    }
    let mut diffs = 0;
    let first = &maps[0];
    for (r, m) in maps.iter().enumerate().skip(1) {
        for (i, v) in first {
            match m.get(i) {
                Some(v2) if v2 == v => {}
                other => {
                    diffs += 1;
                    if diffs < 10 {
                        println!("DIVERGENCE run {i}: round0 {v:?} round{r} {other:?}");
                    }
                }
            }
        }
        if m.len() != first.len() {
            println!("round {r} recorded {} runs, round 0 {}", m.len(), first.len());
            diffs += 1;
        }
    }
    let _ = std::fs::remove_dir_all(&base);
    println!("determinism self-test {prop}: {} runs x 5 rounds (16,16,4,1,7 processes), {diffs} divergences", first.len());
    if diffs == 0 {
        0
    } else {
        2
    }
}

fn main() {
    let args: Vec<String> = std::env::args().collect();
    let code = match args.get(1).map(|s| s.as_str()) {
        Some("check") => check(&args),
        Some("worker") => worker_main(&args),
        Some("replay") => replay_main(&args),
        Some("minimise") => minimise_main(&args),
        Some("runone") => runone_main(&args),
        Some("rejection-stats") => { rejection_stats(); 0 }
        Some("selftest-determinism") => selftest(&args),
        _ => {
            eprintln!("usage: pestsim check|worker|replay|selftest-determinism ...");
            2
        }
    };
    let _ = Path::new("/");
    std::process::exit(code);
}

#[allow(dead_code)]
fn rejection_stats() {
    let mut rng = prng::Rng::new(7);
    let mut m: BTreeMap<String, u64> = BTreeMap::new();
    for _ in 0..20000 {
        let g = gen::gen_grammar(&mut rng, &gen::GenCfg::default());
        match pest_meta::parse_and_optimize(&g.to_pest()) {
            Ok(_) => *m.entry("ok".into()).or_default() += 1,
            Err(es) => {
                let e = format!("{}", es[0].variant.message());
                let key: String = e.split(':').next().unwrap_or("").chars().take(70).collect();
                *m.entry(key).or_default() += 1;
            }
        }
    }
    let mut v: Vec<_> = m.into_iter().collect();
    v.sort_by_key(|x| std::cmp::Reverse(x.1));
    for (k, n) in v.iter().take(15) {
        println!("{n:>7} {k}");
    }
}
