//! Parse jobs shared by the C12 / C15 checks: a back-end (the VM on any grammar text, or one of
//! the generated parsers of the repository), an input, and a comparable outcome.

use pest::error::{Error, ErrorVariant, InputLocation, LineColLocation};
use pest::iterators::Pairs;
use pest::{Parser, RuleType};
use pest_meta::optimizer::OptimizedRule;
use serde_json::{json, Value};
use std::fmt::Debug;
use std::panic::{self, AssertUnwindSafe};

/// Generated parsers (pest_derive, built from /repo's working tree) for the repository's own
/// construct-rich test grammars: every operator, the stack operations, built-ins, WHITESPACE and
/// COMMENT. The same grammar files are also run through the VM.
pub mod testgrammars {
    pub mod grammar {
        #[derive(pest_derive::Parser)]
        #[grammar = "/repo/vm/tests/grammar.pest"]
        pub struct P;
    }
    pub mod lists {
        #[derive(pest_derive::Parser)]
        #[grammar = "/repo/vm/tests/lists.pest"]
        pub struct P;
    }
    pub mod reporting {
        #[derive(pest_derive::Parser)]
        #[grammar = "/repo/vm/tests/reporting.pest"]
        pub struct P;
    }
}

/// A fixed family of generated grammars compiled by pest_derive at build time (see build.rs).
pub mod family {
    include!(concat!(env!("OUT_DIR"), "/family.rs"));

    /// the AST the build script generated grammar `i` from (same generator, same seed)
    pub fn ast(i: usize) -> crate::gen::Grammar {
        let mut rng = crate::prng::Rng::new(FAMILY_SEEDS[i]);
        crate::gen::gen_grammar(&mut rng, &crate::gen::GenCfg::default())
    }
}

#[derive(Clone, Debug, PartialEq, Eq)]
pub enum Backend {
    /// pest_vm on an arbitrary grammar text
    Vm { grammar: String, rule: String },
    /// generated parsers (pest_derive) of /repo/grammars and the meta grammar of pest_meta
    Json,
    Toml,
    Http,
    Sql,
    Meta,
    /// generated parser of vm/tests/{grammar,lists,reporting}.pest, entered at `rule`
    Test { grammar: String, rule: String },
    /// generated parser (pest_derive) of member `index` of the build-time grammar family
    Gen { index: usize, rule: String },
}

impl Backend {
    pub fn name(&self) -> &'static str {
        match self {
            Backend::Vm { .. } => "vm",
            Backend::Json => "derive:json",
            Backend::Toml => "derive:toml",
            Backend::Http => "derive:http",
            Backend::Sql => "derive:sql",
            Backend::Meta => "derive:pest_meta",
            Backend::Test { .. } => "derive:test-grammars",
            Backend::Gen { .. } => "derive:generated-family",
        }
    }
    pub fn to_json(&self) -> Value {
        match self {
            Backend::Vm { grammar, rule } => json!({"kind":"vm","grammar":grammar,"rule":rule}),
            Backend::Test { grammar, rule } => json!({"kind":"derive:test-grammars","grammar":grammar,"rule":rule}),
            Backend::Gen { index, rule } => json!({"kind":"derive:generated-family","index":index,"rule":rule,
                "grammar": family::FAMILY_TEXTS.get(*index)}),
            other => json!({"kind": other.name()}),
        }
    }
    pub fn from_json(v: &Value) -> Option<Backend> {
        Some(match v.get("kind")?.as_str()? {
            "vm" => Backend::Vm {
                grammar: v.get("grammar")?.as_str()?.to_string(),
                rule: v.get("rule")?.as_str()?.to_string(),
            },
            "derive:test-grammars" => Backend::Test {
                grammar: v.get("grammar")?.as_str()?.to_string(),
                rule: v.get("rule")?.as_str()?.to_string(),
            },
            "derive:generated-family" => Backend::Gen {
                index: v.get("index")?.as_u64()? as usize,
                rule: v.get("rule")?.as_str()?.to_string(),
            },
            "derive:json" => Backend::Json,
            "derive:toml" => Backend::Toml,
            "derive:http" => Backend::Http,
            "derive:sql" => Backend::Sql,
            "derive:pest_meta" => Backend::Meta,
            _ => return None,
        })
    }
}

#[derive(Clone, Debug, PartialEq, Eq)]
pub struct Job {
    pub backend: Backend,
    pub input: String,
}

impl Job {
    pub fn to_json(&self) -> Value {
        json!({"backend": self.backend.to_json(), "input": self.input})
    }
    pub fn from_json(v: &Value) -> Option<Job> {
        Some(Job {
            backend: Backend::from_json(v.get("backend")?)?,
            input: v.get("input")?.as_str()?.to_string(),
        })
    }
}

/// What the detailed-error machinery recorded, reduced to what the property talks about.
#[derive(Clone, Debug, PartialEq, Eq)]
pub struct Attempts {
    pub max_position: usize,
    pub on_char_boundary: bool,
    pub within_input: bool,
    pub expected: Vec<String>,
    pub unexpected: Vec<String>,
    pub call_stacks: usize,
    /// the help message rendered (None = rendering panicked)
    pub help: Option<String>,
}

#[derive(Clone, Debug, PartialEq, Eq)]
pub enum Core {
    /// flattened token list: (rule, start, end, node tag)
    Ok(Vec<(String, usize, usize, Option<String>)>),
    Err {
        /// "call limit reached" custom error?
        limit: bool,
        positives: Vec<String>,
        negatives: Vec<String>,
        message: Option<String>,
        location: (usize, Option<usize>),
        line_col: ((usize, usize), Option<(usize, usize)>),
    },
    Panic(String),
}

impl Core {
    pub fn is_limit_error(&self) -> bool {
        matches!(self, Core::Err { limit: true, .. })
    }
    pub fn short(&self) -> String {
        match self {
            Core::Ok(t) => format!("Ok({} tokens: {:?})", t.len(), t.iter().take(6).collect::<Vec<_>>()),
            Core::Err {
                limit,
                positives,
                negatives,
                location,
                ..
            } => {
                if *limit {
                    format!("Err(call limit reached @{location:?})")
                } else {
                    format!("Err(@{location:?} +{positives:?} -{negatives:?})")
                }
            }
            Core::Panic(m) => format!("PANIC({m})"),
        }
    }
}

#[derive(Clone, Debug, PartialEq, Eq)]
pub struct Outcome {
    pub core: Core,
    /// Some(..) iff the error carries parse attempts (detail was on for this parse)
    pub attempts: Option<Attempts>,
}

fn core_ok<R: RuleType>(pairs: Pairs<'_, R>) -> Core {
    let mut v = vec![];
    for p in pairs.flatten() {
        let sp = p.as_span();
        v.push((
            format!("{:?}", p.as_rule()),
            sp.start(),
            sp.end(),
            p.as_node_tag().map(|s| s.to_string()),
        ));
    }
    Core::Ok(v)
}

fn outcome_err<R: RuleType>(e: Error<R>, input: &str) -> Outcome {
    let (limit, positives, negatives, message) = match &e.variant {
        ErrorVariant::ParsingError { positives, negatives } => (
            false,
            positives.iter().map(|r| format!("{r:?}")).collect(),
            negatives.iter().map(|r| format!("{r:?}")).collect(),
            None,
        ),
        ErrorVariant::CustomError { message } => (message == "call limit reached", vec![], vec![], Some(message.clone())),
    };
    let location = match e.location {
        InputLocation::Pos(p) => (p, None),
        InputLocation::Span((a, b)) => (a, Some(b)),
    };
    let line_col = match e.line_col {
        LineColLocation::Pos(p) => (p, None),
        LineColLocation::Span(a, b) => (a, Some(b)),
    };
    let attempts = e.parse_attempts().map(|pa| {
        let max_position = pa.max_position;
        let within = max_position <= input.len();
        let boundary = within && input.is_char_boundary(max_position);
        let expected: Vec<String> = pa.expected_tokens().iter().map(|t| t.to_string()).collect();
        let unexpected: Vec<String> = pa.unexpected_tokens().iter().map(|t| t.to_string()).collect();
        let call_stacks = pa.call_stacks().len();
        // rendering must never panic
        let help = panic::catch_unwind(AssertUnwindSafe(|| {
            let rule_to_message: pest::error::RuleToMessageFn<R> = Box::new(|r: &R| Some(format!("{r:?}")));
            let is_ws: pest::error::IsWhitespaceFn = Box::new(|s: String| s.chars().all(|c| c.is_whitespace()));
            e.parse_attempts_error(input, &rule_to_message, &is_ws)
                .map(|he| format!("{he}"))
        }))
        .ok()
        .flatten();
        Attempts {
            max_position,
            on_char_boundary: boundary,
            within_input: within,
            expected,
            unexpected,
            call_stacks,
            help,
        }
    });
    // the ordinary rendering must not panic either
    let rendered = panic::catch_unwind(AssertUnwindSafe(|| format!("{e}")));
    let core = if rendered.is_err() {
        Core::Panic("Display of the error panicked".into())
    } else {
        Core::Err {
            limit,
            positives,
            negatives,
            message,
            location,
            line_col,
        }
    };
    Outcome { core, attempts }
}

pub(crate) fn from_result<R: RuleType>(r: Result<Pairs<'_, R>, Error<R>>, input: &str) -> Outcome {
    match r {
        Ok(p) => Outcome {
            core: core_ok(p),
            attempts: None,
        },
        Err(e) => outcome_err(e, input),
    }
}

/// A prepared job (grammar text parsed and optimised once).
pub struct Prepared {
    pub job: Job,
    vm: Option<(pest_vm::Vm, String)>,
}

pub fn optimise(grammar: &str) -> Option<Vec<OptimizedRule>> {
    pest_meta::parse_and_optimize(grammar).ok().map(|(_, r)| r)
}

impl Prepared {
    pub fn new(job: &Job) -> Option<Prepared> {
        let vm = match &job.backend {
            Backend::Vm { grammar, rule } => {
                let rules = optimise(grammar)?;
                if !rules.iter().any(|r| r.name == *rule) {
                    return None;
                }
                Some((pest_vm::Vm::new(rules), rule.clone()))
            }
            Backend::Test { grammar, rule } => {
                if !test_grammar_rules(grammar).contains(rule) {
                    return None;
                }
                None
            }
            Backend::Gen { index, .. } => {
                if *index >= family::FAMILY {
                    return None;
                }
                None
            }
            _ => None,
        };
        Some(Prepared { job: job.clone(), vm })
    }

    /// Runs the parse under whatever configuration the process-wide switches hold right now.
    /// A panic inside the parse is caught and reported as `Core::Panic`.
    pub fn run(&self) -> Outcome {
        let input = self.job.input.as_str();
        let r = panic::catch_unwind(AssertUnwindSafe(|| match &self.job.backend {
            Backend::Vm { .. } => {
                let (vm, rule) = self.vm.as_ref().unwrap();
                from_result(vm.parse(rule, input), input)
            }
            Backend::Json => from_result(
                pest_grammars::json::JsonParser::parse(pest_grammars::json::Rule::json, input),
                input,
            ),
            Backend::Toml => from_result(
                pest_grammars::toml::TomlParser::parse(pest_grammars::toml::Rule::toml, input),
                input,
            ),
            Backend::Http => from_result(
                pest_grammars::http::HttpParser::parse(pest_grammars::http::Rule::http, input),
                input,
            ),
            Backend::Sql => from_result(
                pest_grammars::sql::SqlParser::parse(pest_grammars::sql::Rule::Command, input),
                input,
            ),
            Backend::Meta => from_result(
                pest_meta::parser::parse(pest_meta::parser::Rule::grammar_rules, input),
                input,
            ),
            Backend::Gen { index, rule } => family::family_parse(*index, rule, input)
                .expect("harness: unknown member / rule of the generated family"),
            Backend::Test { grammar, rule } => {
                macro_rules! go {
                    ($m:ident) => {{
                        let r = testgrammars::$m::Rule::all_rules()
                            .iter()
                            .copied()
                            .find(|r| format!("{r:?}") == *rule)
                            .expect("harness: unknown rule of a test grammar");
                        from_result(<testgrammars::$m::P as Parser<_>>::parse(r, input), input)
                    }};
                }
                match grammar.as_str() {
                    "grammar" => go!(grammar),
                    "lists" => go!(lists),
                    _ => go!(reporting),
                }
            }
        }));
        match r {
            Ok(o) => o,
            Err(p) => {
                let m = if let Some(s) = p.downcast_ref::<&str>() {
                    (*s).to_string()
                } else if let Some(s) = p.downcast_ref::<String>() {
                    s.clone()
                } else {
                    "panic".into()
                };
                Outcome {
                    core: Core::Panic(m),
                    attempts: None,
                }
            }
        }
    }
}

fn dbg_unused<T: Debug>(_t: &T) {}

#[allow(dead_code)]
fn _unused() {
    dbg_unused(&0u8);
}

// ---------------------------------------------------------------------------------------------
// fixed corpus
// ---------------------------------------------------------------------------------------------

pub fn test_grammar_rules(grammar: &str) -> Vec<String> {
    match grammar {
        "grammar" => testgrammars::grammar::Rule::all_rules().iter().map(|r| format!("{r:?}")).collect(),
        "lists" => testgrammars::lists::Rule::all_rules().iter().map(|r| format!("{r:?}")).collect(),
        "reporting" => testgrammars::reporting::Rule::all_rules().iter().map(|r| format!("{r:?}")).collect(),
        _ => vec![],
    }
}

/// (grammar, rule, input) jobs over the repository's test grammars, through the generated
/// parser and through the VM. `stride`/`offset` let each worker take a share.
pub fn test_grammar_jobs() -> Vec<Job> {
    let inputs_grammar: [&str; 34] = [
        "", "abc", "abcabc", "abc abc", "abc  abc", "ABC", "aBc", "abcabcabc", "abc abc abc", "abc$$abc",
        "abcabcabcabc", "0", "9", "a", "b", "abcd", "abc0", "a,b,c,cba", "a,b,c,", "a,b,cba", "ab", "aXa", "aa",
        "01", "0110", "0111", "01234", "0123412", "bab", "ba", "\n\r\n", "é日", "shadows builtin", "a,b,c,cbaFAIL",
    ];
    let inputs_lists: [&str; 8] = [
        "- a", "- a\n- b", "- a\n  - b", "- a\n  - b\n- c", "- a\n  - b\n    - c\n  - d", "- a\n - b\n  - c", "-a", "",
    ];
    let inputs_reporting: [&str; 9] = ["", "a", "b", "c", "x", "aa", "ab", "bb", "ba"];
    let mut jobs = vec![];
    // scale: tokens of more than a thousand characters matched by one flat repetition
    {
        let text = std::fs::read_to_string("/repo/vm/tests/grammar.pest").unwrap_or_default();
        let long: [(&str, String); 6] = [
            ("repeat_atomic", "abc".repeat(400)),
            ("repeat_once_atomic", "abc".repeat(700)),
            ("repeat", "abc".repeat(400)),
            ("ascii_digits", "7".repeat(2500)),
            ("asciis", "x".repeat(3000)),
            ("ascii_alphanumerics", "a1".repeat(1100)),
        ];
        for (rule, input) in long {
            jobs.push(Job {
                backend: Backend::Test {
                    grammar: "grammar".into(),
                    rule: rule.to_string(),
                },
                input: input.clone(),
            });
            if !text.is_empty() {
                jobs.push(Job {
                    backend: Backend::Vm {
                        grammar: text.clone(),
                        rule: rule.to_string(),
                    },
                    input,
                });
            }
        }
    }
    // hand-written scale member of the build-time family, through the generated parser and the VM
    {
        let idx = family::FAMILY_GENERATED;
        let text = family::FAMILY_TEXTS[idx].to_string();
        let scale: Vec<(&str, String)> = vec![
            ("flat_digits", format!("x{}", "7".repeat(1500))),
            ("flat_digits", format!("x{}", "7".repeat(3000))),
            ("flat_range", "abc".repeat(500)),
            ("flat_range", format!("{}!", "abc".repeat(700))),
            ("flat_until", format!("q{}", "y".repeat(2500))),
            ("flat_opt", format!("k{}w", "v".repeat(1300))),
            ("opt_nest", format!("{}{}", "[".repeat(150), "]".repeat(150))),
            ("opt_nest", format!("{}{}", "[".repeat(300), "]".repeat(300))),
            ("opt_nest", format!("{}{}", "[".repeat(600), "]".repeat(600))),
            ("rep_nest", format!("{}{}", "(".repeat(280), ")".repeat(280))),
            ("neg_nest", format!("{}.{}", "<".repeat(270), ">".repeat(270))),
        ];
        for (rule, input) in scale {
            jobs.push(Job {
                backend: Backend::Gen {
                    index: idx,
                    rule: rule.to_string(),
                },
                input: input.clone(),
            });
            jobs.push(Job {
                backend: Backend::Vm {
                    grammar: text.clone(),
                    rule: rule.to_string(),
                },
                input,
            });
        }
    }
    for (g, file, inputs) in [
        ("grammar", "/repo/vm/tests/grammar.pest", &inputs_grammar[..]),
        ("lists", "/repo/vm/tests/lists.pest", &inputs_lists[..]),
        ("reporting", "/repo/vm/tests/reporting.pest", &inputs_reporting[..]),
    ] {
        let text = std::fs::read_to_string(file).unwrap_or_default();
        for rule in test_grammar_rules(g) {
            if rule == "EOI" {
                continue;
            }
            for inp in inputs {
                let input = inp.replace("\\n", "\n").replace("\\r", "\r");
                jobs.push(Job {
                    backend: Backend::Test {
                        grammar: g.to_string(),
                        rule: rule.clone(),
                    },
                    input: input.clone(),
                });
                if !text.is_empty() {
                    jobs.push(Job {
                        backend: Backend::Vm {
                            grammar: text.clone(),
                            rule: rule.clone(),
                        },
                        input,
                    });
                }
            }
        }
    }
    jobs
}

pub struct Corpus {
    pub jobs: Vec<Job>,
}

fn read(path: &str) -> Option<String> {
    std::fs::read_to_string(path).ok()
}

/// The repository's own grammars and example documents (through the generated parsers and
/// through the VM), plus truncations of them.
pub fn fixed_corpus() -> Corpus {
    let mut jobs = vec![];
    let g = |name: &str| read(&format!("/repo/grammars/src/grammars/{name}.pest"));
    let mut docs: Vec<(Backend, Option<(String, &'static str)>, String)> = vec![];
    let json_docs = [
        r#"{"a": [1, 2.5e3, true, null, "x\né"], "b": {}}"#,
        r#"[[], {}, [[[1]]], -0, "\"\\"]"#,
        r#"{"k": tru}"#,
        r#"[1, 2"#,
    ];
    for d in json_docs {
        docs.push((Backend::Json, g("json").map(|t| (t, "json")), d.to_string()));
    }
    if let Some(t) = read("/repo/grammars/tests/examples.json").or_else(|| read("/repo/grammars/benches/data.json")) {
        docs.push((Backend::Json, g("json").map(|t| (t, "json")), t));
    }
    let toml_docs = [
        "a = 1\nb = \"x\"\n[t]\nc = [1, 2, 3]\nd = { e = 1.5, f = true }\n",
        "[[arr]]\nx = 1979-05-27T07:32:00Z\n[[arr]]\ny = '''lit'''\n",
        "a = [1, 2\n",
    ];
    for d in toml_docs {
        docs.push((Backend::Toml, g("toml").map(|t| (t, "toml")), d.to_string()));
    }
    if let Some(t) = read("/repo/grammars/tests/examples.toml") {
        docs.push((Backend::Toml, g("toml").map(|t| (t, "toml")), t));
    }
    let http_docs = [
        "GET /index.html HTTP/1.1\r\nHost: example.com\r\nAccept: */*\r\n\r\n",
        "POST / HTTP/1.0\r\nA: b\r\n",
    ];
    for d in http_docs {
        docs.push((Backend::Http, g("http").map(|t| (t, "http")), d.to_string()));
    }
    if let Some(t) = read("/repo/grammars/tests/examples.http") {
        docs.push((Backend::Http, g("http").map(|t| (t, "http")), t));
    }
    // large documents: tens of thousands of counted calls (16-bit boundaries of counters)
    if let Some(t) = read("/repo/grammars/benches/requests.http") {
        docs.push((Backend::Http, g("http").map(|t| (t, "http")), t));
    }
    if let Some(t) = read("/repo/grammars/benches/data.json") {
        docs.push((Backend::Json, g("json").map(|t| (t, "json")), t));
    }
    let sql_docs = [
        "select a, b from t where a = 1 and b in (1, 2, 3)",
        "insert into t (a, b) select c, d from u",
        "create user \"bob\" with password 'x' using md5",
        "select a from t where a = (select b from",
        "select (a + b) * c as x from t inner join u on t.a = u.a group by x",
        "create table t (a int primary key, b text not null) distributed by (a)",
        "select 1 frm t",
    ];
    for d in sql_docs {
        docs.push((Backend::Sql, g("sql").map(|t| (t, "Command")), d.to_string()));
    }
    let meta_docs = [
        crate::c17::DOC_GRAMMAR.to_string(),
        "a = { \"x\" ~ (b | ^\"y\")* ~ !c }\nb = _{ 'a'..'z'+ }\nc = @{ PUSH(b) ~ POP }\n".to_string(),
        "a = { \"x\" ~ (b | }".to_string(),
    ];
    for d in meta_docs {
        docs.push((Backend::Meta, read("/repo/meta/src/grammar.pest").map(|t| (t, "grammar_rules")), d));
    }
    // scale: one very long line (error text, positions beyond 65535), deep nesting (hundreds of
    // open constructs when a refusal strikes)
    let long_array = format!("[{}1]", "1,".repeat(3000));
    docs.push((Backend::Json, g("json").map(|t| (t, "json")), long_array.clone()));
    docs.push((Backend::Json, g("json").map(|t| (t, "json")), format!("{}x", &long_array[..long_array.len() - 1])));
    for depth in [130usize, 270, 520] {
        let nested = format!("a = {}1{}\n", "[".repeat(depth), "]".repeat(depth));
        docs.push((Backend::Toml, g("toml").map(|t| (t, "toml")), nested));
        let nested_json = format!("{}1{}", "[".repeat(depth), "]".repeat(depth));
        docs.push((Backend::Json, g("json").map(|t| (t, "json")), nested_json));
    }
    for (be, vm, doc) in docs {
        let mut variants = vec![doc.clone()];
        // truncations at a few char boundaries
        let n = doc.chars().count();
        for frac in [1usize, 2, 3] {
            let cut = n * frac / 4;
            variants.push(doc.chars().take(cut).collect());
        }
        for v in variants {
            jobs.push(Job {
                backend: be.clone(),
                input: v.clone(),
            });
            if let Some((gt, rule)) = &vm {
                jobs.push(Job {
                    backend: Backend::Vm {
                        grammar: gt.clone(),
                        rule: rule.to_string(),
                    },
                    input: v,
                });
            }
        }
    }
    jobs.extend(test_grammar_jobs());
    Corpus { jobs }
}
