//! Worker process: executes runs i = wid, wid+nw, wid+2nw, ... of one property until its budget
//! is used up. Run i is a pure function of (VERIF_SEED, property, i) — the worker count only
//! decides who executes it.

use crate::c12;
use crate::c15;
use crate::c17;
use crate::cfgworld;
use crate::gen;
use crate::parsework::{self, Backend, Job};
use crate::prng::{self, Rng};
use crate::sched::SchedSpec;
use serde_json::{json, Map, Value};
use std::collections::BTreeMap;
use std::io::Write;
use std::time::{Duration, Instant};

pub struct WorkerArgs {
    pub prop: String,
    pub seed: u64,
    pub wid: u64,
    pub nw: u64,
    pub budget: Duration,
    pub max_runs: u64,
    pub out_dir: String,
    pub tier: String,
    pub spurious: bool,
    /// record per-run (index, hash, class) lines (determinism self-test)
    pub trace_runs: bool,
}

/// Heartbeat: the index of the run about to be executed, so that the orchestrator's watchdog can
/// name the run a hung worker was executing.
pub struct Heartbeat {
    f: Option<std::fs::File>,
}

impl Heartbeat {
    pub fn new(a: &WorkerArgs) -> Heartbeat {
        std::fs::create_dir_all(&a.out_dir).ok();
        Heartbeat {
            f: std::fs::File::create(format!("{}/hb_{}", a.out_dir, a.wid)).ok(),
        }
    }
    pub fn beat(&mut self, idx: u64) {
        use std::io::{Seek, SeekFrom};
        if let Some(f) = self.f.as_mut() {
            let _ = f.seek(SeekFrom::Start(0));
            let _ = f.write_all(format!("{idx:<20}").as_bytes());
        }
    }
}

/// Violation records are also appended to `viol_<wid>.jsonl` the moment they occur, so that they
/// survive when the worker is later killed by the watchdog (a hang in another run).
pub struct ViolLog {
    f: Option<std::fs::File>,
}

impl ViolLog {
    pub fn new(a: &WorkerArgs) -> ViolLog {
        std::fs::create_dir_all(&a.out_dir).ok();
        ViolLog {
            f: std::fs::File::create(format!("{}/viol_{}.jsonl", a.out_dir, a.wid)).ok(),
        }
    }
    pub fn push(&mut self, list: &mut Vec<Value>, v: Value) {
        if let Some(f) = self.f.as_mut() {
            let _ = writeln!(f, "{v}");
            let _ = f.flush();
        }
        list.push(v);
    }
}

fn bump(m: &mut BTreeMap<String, u64>, k: &str) {
    *m.entry(k.to_string()).or_default() += 1;
}

fn map_json(m: &BTreeMap<String, u64>) -> Value {
    let mut o = Map::new();
    for (k, v) in m {
        o.insert(k.clone(), json!(v));
    }
    Value::Object(o)
}

pub struct Out {
    pub report: Value,
    pub hashes: Vec<u64>,
    pub run_lines: Vec<String>,
}

pub fn write_out(a: &WorkerArgs, out: Out) {
    std::fs::create_dir_all(&a.out_dir).ok();
    let p = format!("{}/worker_{}.json", a.out_dir, a.wid);
    std::fs::write(&p, serde_json::to_string(&out.report).unwrap()).expect("write worker report");
    let hp = format!("{}/hashes_{}.bin", a.out_dir, a.wid);
    let mut f = std::fs::File::create(hp).expect("hash file");
    let mut buf = Vec::with_capacity(out.hashes.len() * 8);
    for h in &out.hashes {
        buf.extend_from_slice(&h.to_le_bytes());
    }
    f.write_all(&buf).unwrap();
    if a.trace_runs {
        let lp = format!("{}/runs_{}.txt", a.out_dir, a.wid);
        std::fs::write(lp, out.run_lines.join("\n")).unwrap();
    }
}

// ---------------------------------------------------------------------------------------------
// C17
// ---------------------------------------------------------------------------------------------

/// Everything about run `i` of C17 that is derived from the seed.
pub fn c17_case(seed: u64, i: u64, spurious: bool) -> (Option<(c17::Workload, Vec<c17::RunRef>)>, SchedSpec, c17::GenStats) {
    let rs = prng::run_seed(seed, "C17", i);
    let mut wr = Rng::stream(rs, "workload");
    let mut stats = c17::GenStats {
        grammars_rejected: 0,
        refs_too_expensive: 0,
    };
    let mut w = c17::gen_workload(&mut wr, &mut stats);
    if spurious {
        if let Some((w, _)) = w.as_mut() {
            let mut fr = Rng::stream(rs, "faults");
            w.spurious_permille = [20u32, 100, 300][fr.below(3)];
        }
    }
    (w, c17::gen_sched(rs), stats)
}

pub fn run_c17(a: &WorkerArgs) -> Out {
    let t0 = Instant::now();
    let mut probes = c17::Probes::default();
    let mut classes: BTreeMap<String, u64> = BTreeMap::new();
    let mut strategies: BTreeMap<String, u64> = BTreeMap::new();
    let mut personalities: BTreeMap<String, u64> = BTreeMap::new();
    let mut caps: BTreeMap<String, u64> = BTreeMap::new();
    let mut grammar_kinds: BTreeMap<String, u64> = BTreeMap::new();
    let mut hashes: Vec<u64> = vec![];
    let mut violations: Vec<Value> = vec![];
    let mut vlog = ViolLog::new(a);
    let mut samples: Vec<Value> = vec![];
    let mut run_lines = vec![];
    let (mut runs, mut discarded, mut rejected, mut expensive) = (0u64, 0u64, 0u64, 0u64);
    let (mut steps, mut events, mut nontrivial) = (0u64, 0u64, 0u64);
    let mut i = a.wid;
    let mut hb = Heartbeat::new(a);
    while runs + discarded < a.max_runs && t0.elapsed() < a.budget {
        hb.beat(i);
        let (w, spec, st) = c17_case(a.seed, i, a.spurious);
        rejected += st.grammars_rejected;
        expensive += st.refs_too_expensive;
        let idx = i;
        i += a.nw;
        let Some((w, refs)) = w else {
            discarded += 1;
            continue;
        };
        runs += 1;
        if let SchedSpec::Seeded { strategy, .. } = &spec {
            bump(&mut strategies, strategy.name());
        }
        bump(&mut personalities, w.personality);
        bump(&mut grammar_kinds, &w.grammar_kind);
        for c in &w.script {
            if let c17::Cmd::Run { cap, .. } = c {
                bump(&mut caps, &format!("capacity_{cap}"));
            }
        }
        let out = c17::execute(&w, spec.clone());
        steps += out.decisions.len() as u64;
        events += out.events.len() as u64;
        let h = c17::history_hash(&out.events);
        let is_nontrivial = out.cross_switches > 0 || out.spurious_fired > 0;
        if is_nontrivial {
            nontrivial += 1;
            hashes.push(h);
        }
        let v = c17::check_history(&w, &refs, &out, &mut probes);
        let class = v.as_ref().map(|v| v.class.clone()).unwrap_or_else(|| "ok".into());
        bump(&mut classes, &class);
        if a.trace_runs {
            run_lines.push(format!("{idx} {h:016x} {class} {}", out.decisions.len()));
        }
        if let Some(v) = v {
            if violations.len() < 200 {
                vlog.push(&mut violations, json!({
                    "index": idx, "class": v.class, "signature": v.signature, "detail": v.detail,
                }));
            }
        }
        if samples.len() < 2 && a.wid < 2 && runs >= 3 && out.decisions.len() > 20 {
            let hist = c17::render_history(&out.events);
            samples.push(json!({
                "run_index": idx,
                "workload": w.to_json(),
                "scheduler": format!("{spec:?}"),
                "decisions": out.decisions.len(),
                "ending": format!("{:?}", out.ending),
                "history_hash": format!("{h:016x}"),
                "history_head": hist.iter().take(60).collect::<Vec<_>>(),
            }));
        }
    }
    let report = json!({
        "runs": runs, "discarded": discarded,
        "grammars_rejected_by_front_end": rejected, "reference_too_expensive": expensive,
        "scheduler_steps": steps, "events": events, "nontrivial": nontrivial,
        "classes": map_json(&classes), "strategies": map_json(&strategies),
        "personalities": map_json(&personalities), "channel_capacities": map_json(&caps),
        "grammar_kinds": map_json(&grammar_kinds),
        "probes": probes.to_json(),
        "violations": violations, "samples": samples,
        "wall_s": t0.elapsed().as_secs_f64(),
    });
    Out {
        report,
        hashes,
        run_lines,
    }
}

// ---------------------------------------------------------------------------------------------
// shared: generated parse jobs
// ---------------------------------------------------------------------------------------------

pub struct GenJob {
    pub job: Job,
    pub ast: gen::Grammar,
    pub start: usize,
}

/// A generated (grammar, start rule, input) job for the VM back-end; None if the real front-end
/// rejects the grammar.
pub fn gen_vm_job(rng: &mut Rng) -> Option<GenJob> {
    let g = gen::gen_grammar(rng, &gen::GenCfg::default());
    let text = g.to_pest();
    parsework::optimise(&text)?;
    let start = if rng.chance(2, 3) { 0 } else { rng.below(g.rules.len()) };
    let input = gen::gen_input(rng, &g, start, 16);
    Some(GenJob {
        job: Job {
            backend: Backend::Vm {
                grammar: text,
                rule: g.rules[start].name.clone(),
            },
            input,
        },
        ast: g,
        start,
    })
}

/// A job on a member of the build-time grammar family: through the GENERATED parser, or (same
/// grammar text, same rule, same input) through the VM.
pub fn gen_family_job(rng: &mut Rng, derive: bool) -> GenJob {
    let index = rng.below(parsework::family::FAMILY_GENERATED);
    let g = parsework::family::ast(index);
    let start = if rng.chance(2, 3) { 0 } else { rng.below(g.rules.len()) };
    let input = gen::gen_input(rng, &g, start, 16);
    let rule = g.rules[start].name.clone();
    let backend = if derive {
        Backend::Gen { index, rule }
    } else {
        Backend::Vm {
            grammar: parsework::family::FAMILY_TEXTS[index].to_string(),
            rule,
        }
    };
    GenJob {
        job: Job { backend, input },
        ast: g,
        start,
    }
}

pub fn job_hash(j: &Job) -> u64 {
    prng::fnv1a(format!("{:?}", j).as_bytes())
}

#[derive(Clone, Debug)]
pub enum Case12 {
    Sweep(Job, Option<(gen::Grammar, usize)>),
    Cfg(cfgworld::CfgWorkload, SchedSpec),
    Discard,
}

pub const MAX_CALLS: usize = 3000;

/// calls needed by a job without limit (None: unusable)
pub fn job_calls(job: &Job) -> Option<usize> {
    let p = parsework::Prepared::new(job)?;
    let (o, calls, refused) = c12::run_with(&p, MAX_CALLS, false);
    if refused > 0 || matches!(o.core, parsework::Core::Panic(_)) {
        return None;
    }
    Some(calls as usize)
}

fn gen_cfg_case(rng: &mut Rng, rs: u64, with_limit: bool, with_detail: bool, corpus: &[Job]) -> Option<(cfgworld::CfgWorkload, SchedSpec)> {
    let mut jobs = vec![];
    let mut hints = vec![];
    let njobs = rng.range(1, 3);
    for _ in 0..njobs {
        let j = if !corpus.is_empty() && rng.chance(1, 6) {
            corpus[rng.below(corpus.len())].clone()
        } else if rng.chance(1, 5) {
            gen_family_job(rng, true).job
        } else {
            gen_vm_job(rng)?.job
        };
        let c = job_calls(&j)?;
        hints.push(c);
        jobs.push(j);
    }
    let w = cfgworld::gen_workload(rng, jobs, &hints, with_limit, with_detail);
    Some((w, c17::gen_sched(rs)))
}

/// Small corpus jobs usable inside configuration worlds (cheap parses only).
pub fn small_corpus() -> Vec<Job> {
    parsework::fixed_corpus()
        .jobs
        .into_iter()
        .filter(|j| j.input.len() <= 80)
        .filter(|j| job_calls(j).map(|c| c <= 1500).unwrap_or(false))
        .collect()
}

pub fn c12_case(seed: u64, i: u64, corpus: &[Job]) -> Case12 {
    let rs = prng::run_seed(seed, "C12", i);
    let mut rng = Rng::stream(rs, "workload");
    if i % 6 == 5 {
        match gen_cfg_case(&mut rng, rs, true, false, corpus) {
            Some((w, s)) => Case12::Cfg(w, s),
            None => Case12::Discard,
        }
    } else {
        if i % 5 == 2 {
            // the generated-parser back-end on a member of the build-time family (no grammar
            // shrinking for these: the parser is compiled in)
            let g = gen_family_job(&mut rng, true);
            return Case12::Sweep(g.job, None);
        }
        match gen_vm_job(&mut rng) {
            Some(g) => Case12::Sweep(g.job, Some((g.ast, g.start))),
            None => Case12::Discard,
        }
    }
}

pub fn run_c12(a: &WorkerArgs) -> Out {
    let t0 = Instant::now();
    let thorough = a.tier == "thorough";
    let mut classes: BTreeMap<String, u64> = BTreeMap::new();
    let mut backends: BTreeMap<String, u64> = BTreeMap::new();
    let mut discards: BTreeMap<String, u64> = BTreeMap::new();
    let mut hashes = vec![];
    let mut violations = vec![];
    let mut vlog = ViolLog::new(a);
    let mut samples = vec![];
    let mut run_lines = vec![];
    let mut st = c12::SweepStats::default();
    let mut cfgp = cfgworld::CfgProbes::default();
    let (mut sweeps, mut exhaustive_sweeps, mut cfg_runs, mut steps) = (0u64, 0u64, 0u64, 0u64);
    let mut all_exhaustive = true;
    let small = small_corpus();

    // fixed corpus first: job c is handled by worker c % nw
    let corpus = parsework::fixed_corpus();
    let max_ex = if thorough { 6000 } else { 400 };
    for (c, job) in corpus.jobs.iter().enumerate() {
        if (c as u64) % a.nw != a.wid {
            continue;
        }
        let mut rng = Rng::stream(prng::run_seed(a.seed, "C12-corpus", c as u64), "sweep");
        let mut s = c12::SweepStats::default();
        // scale jobs (long inputs, deep nesting) with a moderate call count are always swept
        // exhaustively: the interesting limits are few and sparse
        match c12::sweep(job, 200_000, max_ex.max(2600), &mut rng, &mut s) {
            Ok(v) => {
                sweeps += 1;
                bump(&mut backends, job.backend.name());
                st.calls += s.calls;
                st.points += s.points;
                st.limit_errors += s.limit_errors;
                st.not_reached += s.not_reached;
                st.refused_but_equal += s.refused_but_equal;
                st.limit_hit_at_last_call += s.limit_hit_at_last_call;
                st.limit_error_without_refusal += s.limit_error_without_refusal;
                st.large_limits += s.large_limits;
                if s.exhaustive {
                    exhaustive_sweeps += 1;
                } else {
                    all_exhaustive = false;
                }
                hashes.push(job_hash(job));
                let class = v.as_ref().map(|v| v.class.clone()).unwrap_or_else(|| "ok".into());
                bump(&mut classes, &class);
                if let Some(v) = v {
                    vlog.push(&mut violations, json!({"corpus_index": c, "class": v.class, "signature": "", "detail": v.detail, "k": v.k}));
                }
            }
            Err(why) => bump(&mut discards, why),
        }
    }

    let mut i = a.wid;
    let mut n = 0u64;
    let mut hb = Heartbeat::new(a);
    while n < a.max_runs && t0.elapsed() < a.budget {
        let idx = i;
        hb.beat(idx);
        i += a.nw;
        n += 1;
        match c12_case(a.seed, idx, &small) {
            Case12::Discard => bump(&mut discards, "grammar rejected"),
            Case12::Sweep(job, _) => {
                let mut rng = Rng::stream(prng::run_seed(a.seed, "C12", idx), "sweep");
                let mut s = c12::SweepStats::default();
                match c12::sweep(&job, MAX_CALLS, 700, &mut rng, &mut s) {
                    Ok(v) => {
                        sweeps += 1;
                        bump(&mut backends, job.backend.name());
                        st.calls += s.calls;
                        st.points += s.points;
                        st.limit_errors += s.limit_errors;
                        st.not_reached += s.not_reached;
                        st.refused_but_equal += s.refused_but_equal;
                        st.limit_hit_at_last_call += s.limit_hit_at_last_call;
                        st.limit_error_without_refusal += s.limit_error_without_refusal;
                        st.large_limits += s.large_limits;
                st.large_limits += s.large_limits;
                st.limit_error_without_refusal += s.limit_error_without_refusal;
                st.large_limits += s.large_limits;
                        if s.exhaustive {
                            exhaustive_sweeps += 1;
                        } else {
                            all_exhaustive = false;
                        }
                        if s.calls >= 1 {
                            hashes.push(job_hash(&job));
                        }
                        let class = v.as_ref().map(|v| v.class.clone()).unwrap_or_else(|| "ok".into());
                        bump(&mut classes, &class);
                        if a.trace_runs {
                            run_lines.push(format!("{idx} sweep {} {} {class}", s.calls, s.points));
                        }
                        if samples.len() < 2 && a.wid < 2 && s.calls > 8 {
                            samples.push(json!({"run_index": idx, "kind": "sweep", "job": job.to_json(),
                                "calls_needed": s.calls, "limits_swept": s.points, "exhaustive": s.exhaustive,
                                "limit_errors": s.limit_errors}));
                        }
                        if let Some(v) = v {
                            if violations.len() < 200 {
                                vlog.push(&mut violations, json!({"index": idx, "class": v.class, "signature": "", "detail": v.detail, "k": v.k}));
                            }
                        }
                    }
                    Err(why) => bump(&mut discards, why),
                }
            }
            Case12::Cfg(w, spec) => match cfgworld::execute(&w, spec.clone()) {
                None => bump(&mut discards, "grammar rejected"),
                Some(run) => {
                    cfg_runs += 1;
                    steps += run.world.decisions.len() as u64;
                    let h = c17::history_hash(&run.world.events);
                    if run.world.cross_switches > 0 {
                        hashes.push(h);
                    }
                    let v = cfgworld::check("C12", &w, &run, &mut cfgp);
                    let class = v.as_ref().map(|v| format!("cfg:{}", v.class)).unwrap_or_else(|| "cfg:ok".into());
                    bump(&mut classes, &class);
                    if a.trace_runs {
                        run_lines.push(format!("{idx} cfg {h:016x} {class}"));
                    }
                    if samples.len() < 1 && cfg_runs >= 2 && a.wid < 8 {
                        samples.push(json!({"run_index": idx, "kind": "configuration world", "workload": w.to_json(),
                            "scheduler": format!("{spec:?}"),
                            "parses": run.parses.iter().map(|p| json!({"task": p.task, "job": p.job,
                                "loaded_limit": p.loaded_limit, "outcome": p.outcome.core.short()})).collect::<Vec<_>>()}));
                    }
                    if let Some(v) = v {
                        if violations.len() < 200 {
                            vlog.push(&mut violations, json!({"index": idx, "class": format!("cfg:{}", v.class), "signature": "", "detail": v.detail}));
                        }
                    }
                }
            },
        }
    }
    let report = json!({
        "runs": sweeps + cfg_runs, "sweeps": sweeps, "exhaustive_sweeps": exhaustive_sweeps,
        "all_sweeps_exhaustive": all_exhaustive,
        "configuration_worlds": cfg_runs, "scheduler_steps": steps,
        "fault_points_enumerated": st.points, "calls_total": st.calls,
        "limit_errors_reported": st.limit_errors, "limits_never_reached": st.not_reached,
        "refusal_but_identical_result": st.refused_but_equal,
        "limit_equal_to_calls_needed": st.limit_hit_at_last_call,
        "limit_error_although_no_call_was_refused": st.limit_error_without_refusal,
        "limits_far_beyond_calls_needed(2^16..usize::MAX)": st.large_limits,
        "classes": map_json(&classes), "backends": map_json(&backends), "discards": map_json(&discards),
        "cfg_probes": cfgp.to_json(),
        "violations": violations, "samples": samples,
        "wall_s": t0.elapsed().as_secs_f64(),
    });
    Out {
        report,
        hashes,
        run_lines,
    }
}

// ---------------------------------------------------------------------------------------------
// C15
// ---------------------------------------------------------------------------------------------

#[derive(Clone, Debug)]
pub enum Case15 {
    Diff(Job, Option<(gen::Grammar, usize)>),
    Cfg(cfgworld::CfgWorkload, SchedSpec),
    Discard,
}

pub fn c15_case(seed: u64, i: u64, corpus: &[Job]) -> Case15 {
    let rs = prng::run_seed(seed, "C15", i);
    let mut rng = Rng::stream(rs, "workload");
    if i % 4 == 3 {
        // half of the worlds flip only the detail switch, the other half also the limit
        let with_limit = (i / 4) % 2 == 1;
        match gen_cfg_case(&mut rng, rs, with_limit, true, corpus) {
            Some((w, s)) => Case15::Cfg(w, s),
            None => Case15::Discard,
        }
    } else {
        if i % 5 == 2 {
            let g = gen_family_job(&mut rng, true);
            return Case15::Diff(g.job, None);
        }
        match gen_vm_job(&mut rng) {
            Some(g) => Case15::Diff(g.job, Some((g.ast, g.start))),
            None => Case15::Discard,
        }
    }
}

pub fn run_c15(a: &WorkerArgs) -> Out {
    let t0 = Instant::now();
    let thorough = a.tier == "thorough";
    let mut classes: BTreeMap<String, u64> = BTreeMap::new();
    let mut backends: BTreeMap<String, u64> = BTreeMap::new();
    let mut discards: BTreeMap<String, u64> = BTreeMap::new();
    let mut hashes = vec![];
    let mut violations = vec![];
    let mut vlog = ViolLog::new(a);
    let mut samples = vec![];
    let mut run_lines = vec![];
    let mut ds = c15::DiffStats::default();
    let mut cfgp = cfgworld::CfgProbes::default();
    let (mut diffs, mut cfg_runs, mut steps) = (0u64, 0u64, 0u64);
    let small = small_corpus();

    let corpus = parsework::fixed_corpus();
    let max_pts = if thorough { 3000 } else { 150 };
    for (c, job) in corpus.jobs.iter().enumerate() {
        if (c as u64) % a.nw != a.wid {
            continue;
        }
        let mut rng = Rng::stream(prng::run_seed(a.seed, "C15-corpus", c as u64), "diff");
        match c15::differential(job, 200_000, max_pts, &mut rng, &mut ds) {
            Ok(v) => {
                diffs += 1;
                bump(&mut backends, job.backend.name());
                hashes.push(job_hash(job));
                let class = v.as_ref().map(|v| v.class.clone()).unwrap_or_else(|| "ok".into());
                bump(&mut classes, &class);
                if let Some(v) = v {
                    vlog.push(&mut violations, json!({"corpus_index": c, "class": v.class, "signature": "", "detail": v.detail, "k": v.k}));
                }
            }
            Err(why) => bump(&mut discards, why),
        }
    }

    let mut i = a.wid;
    let mut n = 0u64;
    let mut hb = Heartbeat::new(a);
    while n < a.max_runs && t0.elapsed() < a.budget {
        let idx = i;
        hb.beat(idx);
        i += a.nw;
        n += 1;
        match c15_case(a.seed, idx, &small) {
            Case15::Discard => bump(&mut discards, "grammar rejected"),
            Case15::Diff(job, _) => {
                let mut rng = Rng::stream(prng::run_seed(a.seed, "C15", idx), "diff");
                let before = ds.failing_parses + ds.refusal_points;
                let pairs_before = ds.pairs;
                match c15::differential(&job, MAX_CALLS, 120, &mut rng, &mut ds) {
                    Ok(v) => {
                        diffs += 1;
                        bump(&mut backends, job.backend.name());
                        if ds.failing_parses + ds.refusal_points > before {
                            hashes.push(job_hash(&job));
                        }
                        let class = v.as_ref().map(|v| v.class.clone()).unwrap_or_else(|| "ok".into());
                        bump(&mut classes, &class);
                        if a.trace_runs {
                            run_lines.push(format!("{idx} diff {} {class}", ds.pairs - pairs_before));
                        }
                        if samples.len() < 2 && a.wid < 2 && n % 7 == 3 {
                            let p = parsework::Prepared::new(&job).unwrap();
                            let (on, _, _) = c12::run_with(&p, 0, true);
                            samples.push(json!({"run_index": idx, "kind": "off/on differential", "job": job.to_json(),
                                "outcome_detail_on": on.core.short(),
                                "attempts": on.attempts.as_ref().map(|a| json!({"max_position": a.max_position,
                                    "expected": a.expected, "unexpected": a.unexpected, "call_stacks": a.call_stacks,
                                    "help": a.help}))}));
                        }
                        if let Some(v) = v {
                            if violations.len() < 200 {
                                vlog.push(&mut violations, json!({"index": idx, "class": v.class, "signature": "", "detail": v.detail, "k": v.k}));
                            }
                        }
                    }
                    Err(why) => bump(&mut discards, why),
                }
            }
            Case15::Cfg(w, spec) => match cfgworld::execute(&w, spec.clone()) {
                None => bump(&mut discards, "grammar rejected"),
                Some(run) => {
                    cfg_runs += 1;
                    steps += run.world.decisions.len() as u64;
                    let h = c17::history_hash(&run.world.events);
                    if run.world.cross_switches > 0 {
                        hashes.push(h);
                    }
                    let v = cfgworld::check("C15", &w, &run, &mut cfgp);
                    let class = v.as_ref().map(|v| format!("cfg:{}", v.class)).unwrap_or_else(|| "cfg:ok".into());
                    bump(&mut classes, &class);
                    if a.trace_runs {
                        run_lines.push(format!("{idx} cfg {h:016x} {class}"));
                    }
                    if samples.len() < 1 && cfg_runs >= 2 && a.wid < 8 {
                        samples.push(json!({"run_index": idx, "kind": "configuration world", "workload": w.to_json(),
                            "scheduler": format!("{spec:?}"),
                            "parses": run.parses.iter().map(|p| json!({"task": p.task, "job": p.job,
                                "loaded_limit": p.loaded_limit, "loaded_detail": p.loaded_detail,
                                "outcome": p.outcome.core.short(),
                                "has_attempts": p.outcome.attempts.is_some()})).collect::<Vec<_>>()}));
                    }
                    if let Some(v) = v {
                        if violations.len() < 200 {
                            vlog.push(&mut violations, json!({"index": idx, "class": format!("cfg:{}", v.class), "signature": "", "detail": v.detail}));
                        }
                    }
                }
            },
        }
    }
    let report = json!({
        "runs": diffs + cfg_runs, "differentials": diffs, "configuration_worlds": cfg_runs,
        "scheduler_steps": steps,
        "off_on_pairs": ds.pairs, "failing_parses_compared": ds.failing_parses,
        "help_messages_rendered": ds.help_rendered, "refusal_points_crossed": ds.refusal_points,
        "probes": {
            "errors_with_unexpected_tokens(negative lookahead)": ds.with_unexpected_tokens,
            "errors_with_4_or_more_call_stacks": ds.with_call_stacks_ge4,
            "attempt_position_beyond_reported_error_position": ds.max_pos_gt_attempt_pos,
        },
        "classes": map_json(&classes), "backends": map_json(&backends), "discards": map_json(&discards),
        "cfg_probes": cfgp.to_json(),
        "violations": violations, "samples": samples,
        "wall_s": t0.elapsed().as_secs_f64(),
    });
    Out {
        report,
        hashes,
        run_lines,
    }
}
