//! Emits a fixed family of generated grammars as `pest_derive` parsers, so that the GENERATED
//! back-end (pest_generator's output) is exercised on the same kind of grammars as the VM.
//! The grammars come from the simulator's own seeded generator with compile-time seeds; the
//! run-time side regenerates the identical ASTs to sample inputs from them.
#[path = "src/prng.rs"]
#[allow(dead_code)]
mod prng;
#[path = "src/gen.rs"]
#[allow(dead_code)]
mod gen;

use std::fmt::Write as _;

pub const FAMILY: usize = 96;
pub const FAMILY_SEED: u64 = 0x5eed_fa71;

const SCALE_GRAMMAR: &str = r#"flat_digits = @{ "x" ~ ASCII_DIGIT* }
flat_range = @{ ('a'..'c')+ ~ "!"? }
flat_until = ${ "q" ~ (!"z" ~ ANY)* }
flat_opt = @{ "k" ~ ("v")* ~ "w"? }
opt_nest = { ("[" ~ opt_nest ~ "]")? }
rep_nest = { ("(" ~ rep_nest ~ ")")* }
neg_nest = { "<" ~ (!">" ~ neg_nest)? ~ ">" | "." }
"#;

fn main() {
    println!("cargo:rerun-if-changed=build.rs");
    println!("cargo:rerun-if-changed=src/gen.rs");
    println!("cargo:rerun-if-changed=src/prng.rs");
    let mut out = String::new();
    let mut count = 0usize;
    let mut arms = String::new();
    let mut texts = String::new();
    let mut seeds = String::new();
    let mut i = 0u64;
    while count < FAMILY && i < 10 * FAMILY as u64 {
        let seed = prng::mix(FAMILY_SEED ^ i);
        i += 1;
        let mut rng = prng::Rng::new(seed);
        let g = gen::gen_grammar(&mut rng, &gen::GenCfg::default());
        let text = g.to_pest();
        if pest_meta::parse_and_optimize(&text).is_err() {
            continue;
        }
        writeln!(
            out,
            "pub mod g{count} {{ #[derive(pest_derive::Parser)] #[grammar_inline = r####\"{text}\"####] pub struct P; }}"
        )
        .unwrap();
        writeln!(arms, "        {count} => go!(g{count}),").unwrap();
        writeln!(texts, "    r####\"{text}\"####,").unwrap();
        writeln!(seeds, "    {seed}u64,").unwrap();
        count += 1;
    }
    // hand-written members for SCALE (very long tokens matched by one flat repetition in an atomic
    // rule, hundreds of nested absorbing constructs); inputs come from the fixed corpus
    let generated = count;
    for text in [SCALE_GRAMMAR] {
        assert!(pest_meta::parse_and_optimize(text).is_ok(), "scale grammar must be valid");
        writeln!(
            out,
            "pub mod g{count} {{ #[derive(pest_derive::Parser)] #[grammar_inline = r####\"{text}\"####] pub struct P; }}"
        )
        .unwrap();
        writeln!(arms, "        {count} => go!(g{count}),").unwrap();
        writeln!(texts, "    r####\"{text}\"####,").unwrap();
        writeln!(seeds, "    0u64,").unwrap();
        count += 1;
    }
    writeln!(out, "pub const FAMILY_GENERATED: usize = {generated};").unwrap();
    writeln!(out, "pub const FAMILY: usize = {count};").unwrap();
    writeln!(out, "pub const FAMILY_TEXTS: [&str; {count}] = [\n{texts}];").unwrap();
    writeln!(out, "pub const FAMILY_SEEDS: [u64; {count}] = [\n{seeds}];").unwrap();
    writeln!(
        out,
        "pub fn family_parse(index: usize, rule: &str, input: &str) -> Option<crate::parsework::Outcome> {{
    macro_rules! go {{
        ($m:ident) => {{{{
            let r = $m::Rule::all_rules().iter().copied().find(|r| format!(\"{{r:?}}\") == rule)?;
            Some(crate::parsework::from_result(<$m::P as pest::Parser<_>>::parse(r, input), input))
        }}}};
    }}
    match index {{
{arms}        _ => None,
    }}
}}"
    )
    .unwrap();
    let dir = std::env::var("OUT_DIR").unwrap();
    std::fs::write(format!("{dir}/family.rs"), out).unwrap();
}
