//! `std::thread` seam: `spawn`, `JoinHandle::{thread, join}`, `Thread::unpark`, `park`, `current`.
//!
//! Threads are shuttle-engine tasks (coroutines); `park`/`unpark` are implemented here with an
//! own token so that spurious wake-ups are a fault the harness injects (F4) and not something the
//! engine does on every park.

use crate::rt::{self, EvKind};
use std::panic::{RefUnwindSafe, UnwindSafe};

pub use std::thread::Result;

#[derive(Clone, Debug)]
pub struct Thread {
    task: usize,
}

impl Thread {
    /// Atomically makes the handle's token available if it is not already.
    pub fn unpark(&self) {
        rt::switch();
        let woke = rt::with(|w| {
            let t = w.tasks.entry(self.task).or_default();
            if t.finished {
                return false;
            }
            t.token = true;
            t.parked
        });
        rt::log(EvKind::Unpark {
            target: self.task,
            woke,
        });
        if woke {
            rt::unblock(self.task);
        }
    }

    pub fn sim_task(&self) -> usize {
        self.task
    }
}

pub struct JoinHandle<T> {
    inner: shuttle_std::thread::JoinHandle<T>,
    thread: Thread,
}

impl<T> UnwindSafe for JoinHandle<T> {}
impl<T> RefUnwindSafe for JoinHandle<T> {}

impl<T> std::fmt::Debug for JoinHandle<T> {
    fn fmt(&self, f: &mut std::fmt::Formatter<'_>) -> std::fmt::Result {
        write!(f, "JoinHandle(t{})", self.thread.task)
    }
}

impl<T> JoinHandle<T> {
    pub fn thread(&self) -> &Thread {
        &self.thread
    }

    pub fn join(self) -> Result<T> {
        let target = self.thread.task;
        rt::switch();
        rt::log(EvKind::JoinBegin { target });
        let r = self.inner.join();
        rt::log(EvKind::JoinEnd { target });
        r
    }

    pub fn is_finished(&self) -> bool {
        rt::switch();
        rt::task_finished(self.thread.task)
    }
}

pub fn spawn<F, T>(f: F) -> JoinHandle<T>
where
    F: FnOnce() -> T,
    F: Send + 'static,
    T: Send + 'static,
{
    // (the engine's spawn starts with a scheduling point of its own)
    let parent = rt::me();
    let inner = shuttle_std::thread::spawn(move || {
        let r = f();
        // the thread's last observable act; the engine wakes a joiner right after
        let me = rt::me();
        rt::with(|w| w.tasks.entry(me).or_default().finished = true);
        rt::log(EvKind::ThreadExit);
        r
    });
    let child: usize = inner.thread().id().into();
    rt::with(|w| {
        let t = w.tasks.entry(child).or_default();
        t.spawned_by = Some(parent);
    });
    rt::log(EvKind::Spawn { child });
    // let the child (or anyone else) run before the parent continues
    rt::switch();
    JoinHandle {
        inner,
        thread: Thread { task: child },
    }
}

pub fn current() -> Thread {
    Thread { task: rt::me() }
}

/// Blocks unless or until the current thread's token is made available.
pub fn park() {
    rt::switch();
    let me = rt::me();
    let had = rt::with(|w| {
        let t = w.tasks.entry(me).or_default();
        std::mem::replace(&mut t.token, false)
    });
    rt::log(EvKind::ParkBegin { token: had });
    struct Done(usize);
    impl Drop for Done {
        fn drop(&mut self) {
            rt::with(|w| w.tasks.entry(self.0).or_default().parks_done += 1);
        }
    }
    let _done = Done(me);
    if had {
        rt::log(EvKind::ParkEnd { spurious: false });
        return;
    }
    // F4: spurious return, only when the harness enabled it for this world
    let permille = rt::with(|w| w.faults.spurious_wake_permille);
    if permille > 0 && (rt::fault_draw() % 1000) < permille as u64 {
        rt::with(|w| w.spurious_fired += 1);
        rt::log(EvKind::ParkEnd { spurious: true });
        return;
    }
    loop {
        rt::with(|w| w.tasks.entry(me).or_default().parked = true);
        rt::block_current();
        let got = rt::with(|w| {
            let t = w.tasks.entry(me).or_default();
            t.parked = false;
            std::mem::replace(&mut t.token, false)
        });
        if got {
            rt::log(EvKind::ParkEnd { spurious: false });
            return;
        }
    }
}

/// A scheduling point that does nothing else (models `thread::yield_now` / a short sleep).
pub fn yield_now() {
    rt::switch();
}

/// There is no clock in the simulated world: a sleep is a scheduling point (any other runnable
/// task may run for any number of steps before the sleeper continues).
pub fn sleep(_d: std::time::Duration) {
    // tell the scheduler that this task gives way: while it sleeps every other runnable task
    // gets the processor (a spin-wait with sleeps must not be able to starve the others)
    shuttle_engine::runtime::execution::ExecutionState::request_yield();
    rt::switch();
}
