//! Simulation runtime shared by every seam primitive of one simulated world.
//!
//! One world = one `shuttle_engine` execution = coroutines multiplexed on ONE OS thread, so the
//! world state lives in an OS-thread-local and needs no locking. Everything here is deterministic:
//! no clock is read, no hash-map order is observed, logging takes no scheduling point and draws
//! nothing from any PRNG.

use shuttle_engine::runtime::execution::ExecutionState;
use shuttle_engine::runtime::task::TaskId;
use std::cell::RefCell;
use std::collections::BTreeMap;

/// One recorded seam operation. `seq` is the global event sequence number of the world.
#[derive(Clone, Debug, PartialEq, Eq)]
pub struct Event {
    pub seq: u64,
    pub task: usize,
    pub kind: EvKind,
}

#[derive(Clone, Debug, PartialEq, Eq)]
pub enum EvKind {
    Spawn { child: usize },
    ThreadExit,
    JoinBegin { target: usize },
    JoinEnd { target: usize },
    ParkBegin { token: bool },
    ParkEnd { spurious: bool },
    Unpark { target: usize, woke: bool },
    Lock { obj: u32 },
    Unlock { obj: u32 },
    Load { obj: u32, val: bool },
    Store { obj: u32, val: bool },
    Send { chan: u32, payload: String, waited: bool },
    SendErr { chan: u32 },
    Recv { chan: u32, payload: String },
    RecvErr { chan: u32 },
    TryRecvEmpty { chan: u32 },
    RecvDrop { chan: u32 },
    SenderDrop { chan: u32, last: bool },
    /// harness annotation (controller intent, return values, ...)
    Mark(String),
    /// H1 sites of pest (configuration world)
    Cfg(String),
}

impl Event {
    pub fn render(&self) -> String {
        format!("{:>5} t{} {:?}", self.seq, self.task, self.kind)
    }
}

#[derive(Clone, Debug, Default)]
pub struct TaskInfo {
    pub token: bool,
    pub parked: bool,
    pub finished: bool,
    pub spawned_by: Option<usize>,
    /// channel sends completed by this task / parks it has returned from
    pub sends: u64,
    pub parks_done: u64,
}

/// Fault configuration of a world (F4 only lives here; the other faults are workload/schedule).
#[derive(Clone, Debug, Default)]
pub struct Faults {
    /// probability (per mille) that a blocked `park` is made to return spuriously
    pub spurious_wake_permille: u32,
    pub seed: u64,
}

#[derive(Default)]
pub struct World {
    pub active: bool,
    pub seq: u64,
    pub next_obj: u32,
    pub events: Vec<Event>,
    pub tasks: BTreeMap<usize, TaskInfo>,
    pub faults: Faults,
    pub fault_rng: u64,
    pub spurious_fired: u64,
    /// number of context switches between seam operations of different tasks
    pub cross_switches: u64,
    pub last_task: Option<usize>,
    pub record: bool,
    pub trace: bool,
}

thread_local! {
    static WORLD: RefCell<World> = RefCell::new(World::default());
}

pub fn with<R>(f: impl FnOnce(&mut World) -> R) -> R {
    WORLD.with(|w| f(&mut w.borrow_mut()))
}

/// Reset the world state; called by the harness at the start of every simulated world.
pub fn reset(faults: Faults) {
    with(|w| {
        *w = World::default();
        w.active = true;
        w.record = true;
        w.trace = std::env::var_os("SIMSTD_TRACE").is_some();
        w.fault_rng = faults.seed ^ 0x9E37_79B9_7F4A_7C15;
        w.faults = faults;
    })
}

/// Take the recorded history out of the world (harness, after the run).
pub fn take_events() -> Vec<Event> {
    with(|w| std::mem::take(&mut w.events))
}

pub fn snapshot_events() -> Vec<Event> {
    with(|w| w.events.clone())
}

/// Id of the running simulated task; `usize::MAX` when called outside a running task (e.g. from
/// a destructor that runs while the engine tears a world down).
pub fn me() -> usize {
    ExecutionState::try_with(|s| s.try_current().map(|t| usize::from(t.id())))
        .ok()
        .flatten()
        .unwrap_or(usize::MAX)
}

pub fn in_simulation() -> bool {
    me() != usize::MAX
}

/// Append an event. No scheduling point, no PRNG draw, no clock.
pub fn log(kind: EvKind) {
    let task = me();
    with(|w| {
        if w.last_task.is_some() && w.last_task != Some(task) {
            w.cross_switches += 1;
        }
        w.last_task = Some(task);
        if w.trace {
            eprintln!("  [{}] t{} {:?}", w.seq, task, kind);
        }
        if w.record {
            let seq = w.seq;
            w.seq += 1;
            w.events.push(Event { seq, task, kind });
        } else {
            w.seq += 1;
        }
    })
}

pub fn mark(s: impl Into<String>) {
    log(EvKind::Mark(s.into()))
}

pub fn new_obj() -> u32 {
    with(|w| {
        let o = w.next_obj;
        w.next_obj += 1;
        o
    })
}

/// A scheduling point: the scheduler may run any other runnable task here.
#[inline]
pub fn switch() {
    shuttle_engine::runtime::thread::switch();
}

/// Block the current task (no spurious wake-ups) and yield. Callers MUST re-check their wake-up
/// condition in a loop.
pub fn block_current() {
    ExecutionState::with(|s| s.current_mut().block(false));
    switch();
}

pub fn unblock(task: usize) {
    let _ = ExecutionState::try_with(|s| {
        if s.try_get(TaskId::from(task)).is_some() {
            let t = s.get_mut(TaskId::from(task));
            if !t.finished() {
                t.unblock();
            }
        }
    });
}

pub fn task_finished(task: usize) -> bool {
    with(|w| w.tasks.get(&task).map(|t| t.finished).unwrap_or(false))
}

/// Will this task block in `park` before it can send another message? (harness introspection
/// for workload decisions only — never used by an oracle)
pub fn task_owes_park_without_token(task: usize) -> bool {
    with(|w| {
        w.tasks
            .get(&task)
            .map(|t| t.sends > t.parks_done && !t.token)
            .unwrap_or(false)
    })
}

pub fn task_parked_without_token(task: usize) -> bool {
    with(|w| w.tasks.get(&task).map(|t| t.parked && !t.token).unwrap_or(false))
}

/// splitmix64 step on the world's fault stream.
pub fn fault_draw() -> u64 {
    with(|w| {
        w.fault_rng = w.fault_rng.wrapping_add(0x9E37_79B9_7F4A_7C15);
        let mut z = w.fault_rng;
        z = (z ^ (z >> 30)).wrapping_mul(0xBF58_476D_1CE4_E5B9);
        z = (z ^ (z >> 27)).wrapping_mul(0x94D0_49BB_1331_11EB);
        z ^ (z >> 31)
    })
}
