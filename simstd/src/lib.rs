//! A seam with the names of `std::thread` / `std::sync` that `pest_debugger` uses, implemented on
//! the shuttle engine (coroutines + a scheduler the harness owns). Used only when pest is built
//! with `--cfg pest_parser_pest_verif`.
pub mod rt;
pub mod sync;
pub mod thread;
