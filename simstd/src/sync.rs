//! `std::sync` seam: `Mutex`, `atomic::AtomicBool`, `mpsc::{sync_channel, SyncSender, Receiver}`.
//! `Arc` is std's (it has no scheduling-relevant behaviour).
//!
//! Every operation starts with a scheduling point, performs its effect and appends the event to
//! the world history without another scheduling point in between, so the history order is the
//! order in which the effects took place. Blocking operations loop on their condition.

pub use std::sync::Arc;
pub use std::sync::{LockResult, PoisonError};

use crate::rt::{self, EvKind};
use std::cell::{Cell, RefCell, UnsafeCell};
use std::ops::{Deref, DerefMut};
use std::panic::{RefUnwindSafe, UnwindSafe};

// ---------------------------------------------------------------------------------------------
// Mutex
// ---------------------------------------------------------------------------------------------

pub struct Mutex<T: ?Sized> {
    obj: Cell<Option<u32>>,
    held_by: Cell<Option<usize>>,
    waiters: RefCell<Vec<usize>>,
    poisoned: Cell<bool>,
    data: UnsafeCell<T>,
}

// Safety: a world runs on one OS thread; tasks are coroutines that only switch at `rt::switch`.
unsafe impl<T: ?Sized + Send> Send for Mutex<T> {}
unsafe impl<T: ?Sized + Send> Sync for Mutex<T> {}
impl<T: ?Sized> UnwindSafe for Mutex<T> {}
impl<T: ?Sized> RefUnwindSafe for Mutex<T> {}

pub struct MutexGuard<'a, T: ?Sized> {
    m: &'a Mutex<T>,
}

impl<T> Mutex<T> {
    pub fn new(value: T) -> Self {
        Mutex {
            obj: Cell::new(None),
            held_by: Cell::new(None),
            waiters: RefCell::new(Vec::new()),
            poisoned: Cell::new(false),
            data: UnsafeCell::new(value),
        }
    }
}

impl<T: ?Sized> Mutex<T> {
    fn obj(&self) -> u32 {
        match self.obj.get() {
            Some(o) => o,
            None => {
                let o = rt::new_obj();
                self.obj.set(Some(o));
                o
            }
        }
    }

    pub fn sim_obj(&self) -> u32 {
        self.obj()
    }

    pub fn lock(&self) -> LockResult<MutexGuard<'_, T>> {
        let me = rt::me();
        let obj = self.obj();
        rt::switch();
        loop {
            match self.held_by.get() {
                None => break,
                Some(h) => {
                    assert!(h != me, "simstd: task t{me} re-locks a Mutex it already holds");
                    self.waiters.borrow_mut().push(me);
                    rt::block_current();
                }
            }
        }
        self.held_by.set(Some(me));
        rt::log(EvKind::Lock { obj });
        let g = MutexGuard { m: self };
        if self.poisoned.get() {
            Err(PoisonError::new(g))
        } else {
            Ok(g)
        }
    }
}

impl<T: ?Sized> Drop for MutexGuard<'_, T> {
    fn drop(&mut self) {
        if std::thread::panicking() {
            self.m.poisoned.set(true);
        }
        self.m.held_by.set(None);
        if rt::in_simulation() {
            rt::log(EvKind::Unlock { obj: self.m.obj() });
            let ws: Vec<usize> = std::mem::take(&mut *self.m.waiters.borrow_mut());
            for w in ws {
                rt::unblock(w);
            }
        }
    }
}

impl<T: ?Sized> Deref for MutexGuard<'_, T> {
    type Target = T;
    fn deref(&self) -> &T {
        unsafe { &*self.m.data.get() }
    }
}

impl<T: ?Sized> DerefMut for MutexGuard<'_, T> {
    fn deref_mut(&mut self) -> &mut T {
        unsafe { &mut *self.m.data.get() }
    }
}

impl<T: Default> Default for Mutex<T> {
    fn default() -> Self {
        Mutex::new(T::default())
    }
}

impl<T: ?Sized> std::fmt::Debug for Mutex<T> {
    fn fmt(&self, f: &mut std::fmt::Formatter<'_>) -> std::fmt::Result {
        write!(f, "simstd::Mutex")
    }
}

// ---------------------------------------------------------------------------------------------
// atomic
// ---------------------------------------------------------------------------------------------

pub mod atomic {
    pub use std::sync::atomic::Ordering;

    use crate::rt::{self, EvKind};
    use std::cell::Cell;
    use std::panic::{RefUnwindSafe, UnwindSafe};

    /// Sequentially consistent model of `AtomicBool` (every ordering is treated as SeqCst —
    /// a stated assumption of the simulator).
    pub struct AtomicBool {
        obj: Cell<Option<u32>>,
        v: Cell<bool>,
    }

    unsafe impl Send for AtomicBool {}
    unsafe impl Sync for AtomicBool {}
    impl UnwindSafe for AtomicBool {}
    impl RefUnwindSafe for AtomicBool {}

    impl AtomicBool {
        pub const fn new(v: bool) -> Self {
            AtomicBool {
                obj: Cell::new(None),
                v: Cell::new(v),
            }
        }

        fn obj(&self) -> u32 {
            match self.obj.get() {
                Some(o) => o,
                None => {
                    let o = rt::new_obj();
                    self.obj.set(Some(o));
                    o
                }
            }
        }

        pub fn sim_obj(&self) -> u32 {
            self.obj()
        }

        pub fn load(&self, _o: Ordering) -> bool {
            let obj = self.obj();
            rt::switch();
            let val = self.v.get();
            rt::log(EvKind::Load { obj, val });
            val
        }

        pub fn store(&self, val: bool, _o: Ordering) {
            let obj = self.obj();
            rt::switch();
            self.v.set(val);
            rt::log(EvKind::Store { obj, val });
        }

        pub fn swap(&self, val: bool, _o: Ordering) -> bool {
            let obj = self.obj();
            rt::switch();
            let old = self.v.replace(val);
            rt::log(EvKind::Load { obj, val: old });
            rt::log(EvKind::Store { obj, val });
            old
        }
    }

    impl std::fmt::Debug for AtomicBool {
        fn fmt(&self, f: &mut std::fmt::Formatter<'_>) -> std::fmt::Result {
            write!(f, "simstd::AtomicBool({})", self.v.get())
        }
    }

    impl Default for AtomicBool {
        fn default() -> Self {
            AtomicBool::new(false)
        }
    }
}

// ---------------------------------------------------------------------------------------------
// mpsc (bounded, capacity >= 1)
// ---------------------------------------------------------------------------------------------

pub mod mpsc {
    pub use std::sync::mpsc::{RecvError, SendError, TryRecvError, TrySendError};

    use crate::rt::{self, EvKind};
    use std::cell::{Cell, RefCell};
    use std::collections::VecDeque;
    use std::fmt::Debug;
    use std::panic::{RefUnwindSafe, UnwindSafe};
    use std::sync::Arc;

    struct Chan<T> {
        obj: u32,
        cap: usize,
        buf: RefCell<VecDeque<T>>,
        senders: Cell<usize>,
        receiver_alive: Cell<bool>,
        send_waiters: RefCell<Vec<usize>>,
        recv_waiters: RefCell<Vec<usize>>,
    }

    impl<T> Chan<T> {
        fn wake(list: &RefCell<Vec<usize>>) {
            let ws: Vec<usize> = std::mem::take(&mut *list.borrow_mut());
            for w in ws {
                rt::unblock(w);
            }
        }
    }

    pub struct SyncSender<T> {
        c: Arc<Chan<T>>,
    }

    pub struct Receiver<T> {
        c: Arc<Chan<T>>,
    }

    unsafe impl<T: Send> Send for SyncSender<T> {}
    unsafe impl<T: Send> Sync for SyncSender<T> {}
    unsafe impl<T: Send> Send for Receiver<T> {}
    impl<T> UnwindSafe for SyncSender<T> {}
    impl<T> RefUnwindSafe for SyncSender<T> {}
    impl<T> UnwindSafe for Receiver<T> {}
    impl<T> RefUnwindSafe for Receiver<T> {}

    pub fn sync_channel<T>(bound: usize) -> (SyncSender<T>, Receiver<T>) {
        assert!(bound >= 1, "simstd: rendezvous channels (capacity 0) are not modelled");
        let c = Arc::new(Chan {
            obj: rt::new_obj(),
            cap: bound,
            buf: RefCell::new(VecDeque::new()),
            senders: Cell::new(1),
            receiver_alive: Cell::new(true),
            send_waiters: RefCell::new(Vec::new()),
            recv_waiters: RefCell::new(Vec::new()),
        });
        (SyncSender { c: c.clone() }, Receiver { c })
    }

    impl<T: Debug> SyncSender<T> {
        pub fn send(&self, t: T) -> Result<(), SendError<T>> {
            let c = &*self.c;
            rt::switch();
            let mut waited = false;
            loop {
                if !c.receiver_alive.get() {
                    rt::log(EvKind::SendErr { chan: c.obj });
                    return Err(SendError(t));
                }
                if c.buf.borrow().len() < c.cap {
                    break;
                }
                waited = true;
                c.send_waiters.borrow_mut().push(rt::me());
                rt::block_current();
            }
            let payload = format!("{t:?}");
            c.buf.borrow_mut().push_back(t);
            let me = rt::me();
            rt::with(|w| w.tasks.entry(me).or_default().sends += 1);
            rt::log(EvKind::Send {
                chan: c.obj,
                payload,
                waited,
            });
            Chan::<T>::wake(&c.recv_waiters);
            Ok(())
        }

        pub fn try_send(&self, t: T) -> Result<(), TrySendError<T>> {
            let c = &*self.c;
            rt::switch();
            if !c.receiver_alive.get() {
                rt::log(EvKind::SendErr { chan: c.obj });
                return Err(TrySendError::Disconnected(t));
            }
            if c.buf.borrow().len() >= c.cap {
                return Err(TrySendError::Full(t));
            }
            let payload = format!("{t:?}");
            c.buf.borrow_mut().push_back(t);
            let me = rt::me();
            rt::with(|w| w.tasks.entry(me).or_default().sends += 1);
            rt::log(EvKind::Send {
                chan: c.obj,
                payload,
                waited: false,
            });
            Chan::<T>::wake(&c.recv_waiters);
            Ok(())
        }
    }

    impl<T> SyncSender<T> {
        pub fn sim_chan(&self) -> u32 {
            self.c.obj
        }
    }

    impl<T> Clone for SyncSender<T> {
        fn clone(&self) -> Self {
            self.c.senders.set(self.c.senders.get() + 1);
            SyncSender { c: self.c.clone() }
        }
    }

    impl<T> Drop for SyncSender<T> {
        fn drop(&mut self) {
            let n = self.c.senders.get() - 1;
            self.c.senders.set(n);
            if rt::in_simulation() {
                rt::log(EvKind::SenderDrop {
                    chan: self.c.obj,
                    last: n == 0,
                });
                if n == 0 {
                    Chan::<T>::wake(&self.c.recv_waiters);
                }
            }
        }
    }

    impl<T: Debug> Receiver<T> {
        pub fn recv(&self) -> Result<T, RecvError> {
            let c = &*self.c;
            rt::switch();
            loop {
                if let Some(t) = c.buf.borrow_mut().pop_front() {
                    rt::log(EvKind::Recv {
                        chan: c.obj,
                        payload: format!("{t:?}"),
                    });
                    Chan::<T>::wake(&c.send_waiters);
                    return Ok(t);
                }
                if c.senders.get() == 0 {
                    rt::log(EvKind::RecvErr { chan: c.obj });
                    return Err(RecvError);
                }
                c.recv_waiters.borrow_mut().push(rt::me());
                rt::block_current();
            }
        }

        pub fn try_recv(&self) -> Result<T, TryRecvError> {
            let c = &*self.c;
            rt::switch();
            if let Some(t) = c.buf.borrow_mut().pop_front() {
                rt::log(EvKind::Recv {
                    chan: c.obj,
                    payload: format!("{t:?}"),
                });
                Chan::<T>::wake(&c.send_waiters);
                return Ok(t);
            }
            if c.senders.get() == 0 {
                rt::log(EvKind::RecvErr { chan: c.obj });
                return Err(TryRecvError::Disconnected);
            }
            rt::log(EvKind::TryRecvEmpty { chan: c.obj });
            Err(TryRecvError::Empty)
        }
    }

    impl<T> Receiver<T> {
        pub fn sim_chan(&self) -> u32 {
            self.c.obj
        }
        /// number of buffered messages (harness introspection; no scheduling point)
        pub fn sim_buffered(&self) -> usize {
            self.c.buf.borrow().len()
        }
    }

    impl<T> Drop for Receiver<T> {
        fn drop(&mut self) {
            self.c.receiver_alive.set(false);
            if rt::in_simulation() {
                rt::log(EvKind::RecvDrop { chan: self.c.obj });
                Chan::<T>::wake(&self.c.send_waiters);
            }
        }
    }

    impl<T> std::fmt::Debug for SyncSender<T> {
        fn fmt(&self, f: &mut std::fmt::Formatter<'_>) -> std::fmt::Result {
            write!(f, "simstd::SyncSender(#{})", self.c.obj)
        }
    }
    impl<T> std::fmt::Debug for Receiver<T> {
        fn fmt(&self, f: &mut std::fmt::Formatter<'_>) -> std::fmt::Result {
            write!(f, "simstd::Receiver(#{})", self.c.obj)
        }
    }
}
